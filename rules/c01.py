"""C01 — Generated result types admit every spec-conformant response (structural clauses only).

What is decided here is *not* the inclusion "every response is a member of the emitted type" (that quantifies over responses and
TypeScript's semantics). It is the finite part of it that is visible in the generator: the union of branches the generator emits
is built from a complete case analysis — every possible runtime object type times every assignment of the boolean variables in
play — and no step between that case analysis and the printed union can drop a case or tighten a member:

  R01-a  exact nullability tables of the output side (shared with C02: the tables are compared for equality, so a missing `| null`
         — which makes the type too strict — is reported as well as a spurious one);
  R01-b  branch coverage: parent objects = the object / all implementers / all union members, each boolean variable contributes
         both values, the two are combined by a full cartesian product, the variable enumeration visits every selection and every
         @skip/@include directive, and nothing cuts the product down;
  R01-c  branch identity: whatever pairs the branches of two occurrences of one response key must distinguish everything a
         BranchingCondition distinguishes (else the merge collapses cases);
  R01-d  the merge table of same-key fields and the skip/include table are exact (shared with C02), and `fast_equal`, which licenses
         de-duplication of union members, never equates different types.

Everything is decided from the typed HIR; nothing is executed.  Provenance instances look through helper functions (c02._inl) and are
three-valued; `table:` / `paths:` instances read a finite decision table, or a property of every abstract path, out of the code by
abstract evaluation over variant tags, booleans, the literals of the code and undetermined payloads (c02._Abs), forking on every
undetermined condition — an evaluation without a model is UNDECIDED.
"""
import harness
from facts import norm, subnodes, matches_on, AnchorMissing
from prov import Prov, has_field, has_call
from templates import variant_table
import c02
from c02 import _inl, _sections, _tri, _src_nodes, TRUNCATING

PR = "nitrogql_printer::"
OT = PR + "operation_type_printer::"
TSD = "graphql_type_system::definitions::"
BC = OT + "branching::BranchingCondition"
STB = OT + "selection_tree::SelectionTreeBranch"


def r01a(P, R):
    # the C02 table rules are equalities against the spec table: they decide both directions
    c02.r02a(P, _Relabel(R, "R01-a"))


class _Relabel:
    """forwards to a Reporter, replacing the rule id (shared rule bodies report under this property's own rule ids)"""

    def __init__(self, R, new, _unused=None):
        self.R, self.new = R, new

    def __getattr__(self, name):
        f = getattr(self.R, name)
        if name in ("holds", "violated", "undecided", "check", "floor"):
            def g(rule, *a, **kw):
                return f(self.new, *a, **kw)
            return g
        return f


CUTTING = {"take", "skip", "step_by", "nth", "last", "truncate", "take_while", "skip_while", "map_while"}


def _cuts(fn, *about):
    """names of the adaptors in `fn` that cut a sequence short, applied to a sequence whose type mentions one of `about`"""
    out = set()
    for c in fn.walk():
        if c.get("k") == "MethodCall" and c["method"] in CUTTING:
            t = " ".join(str(c.get(k, "")) for k in ("recv_ty", "self_ty")) + str(c["recv"].get("t", ""))
            if any(a in t for a in about):
                out.add(c["method"])
    return sorted(out)


def r01b(P, R):
    _sections(P, R, "R01-b", _b_parents, _b_implementers, _b_products, _b_variables, _b_skip_coverage, _b_branch_per_condition, _b_branch_per_condition_table)


def _b_parents(P, R):
    """(1) parent objects per kind"""
    g0 = P.fn(OT + "type_printer::generate_branching_conditions")
    g = _inl(P, g0)
    pv = Prov(g)
    ms = matches_on(g, "TypeDefinition")
    R.floor("R01-b", "kind match in generate_branching_conditions", len(ms), 1)
    for m in c02._kind_match(ms):
        tab = variant_table(m)
        for kind, need in (("Object", None), ("Interface", "utils::interface_implementers"), ("Union", None)):
            arm = tab.get(kind)
            if arm is None:
                # a catch-all arm may still enumerate by other means: the run instances possible-types:*:run decide
                R.undecided("R01-b", "parents:" + kind, "generate_branching_conditions has no explicit arm for %s parents" % kind, loc=g0.loc())
                continue
            a = pv.deep_atoms(arm["body"])
            lossy = sorted({c["method"] for c in subnodes(arm["body"]) if c.get("k") == "MethodCall" and c["method"] in TRUNCATING})
            # the possible runtime types of a parent are a fact of the schema: a filter on them that looks at the *selection set* drops types by what is selected
            sel_params = {pv.params.get(p.get("local")) for p in g0.params if p.get("k") == "Binding" and "SelectionSet" in str(p.get("t", ""))}
            by_selection = sorted({c["method"] for c in subnodes(arm["body"]) if c.get("k") == "MethodCall" and c["method"] in ("filter", "filter_map", "retain", "take_while", "skip_while")
                                   and c["args"] and any(("param", sp) in pv.atoms(c["args"][0]) for sp in sel_params if sp)})
            if by_selection:
                R.violated("R01-b", "parents:" + kind, "for a %s parent the candidate runtime types are cut down by a test on the selection set (%s): a type that nothing in the "
                           "selection applies to still occurs at run time (its response is the empty object / `__typename` only) and then has no branch" % (kind, by_selection), loc=g0.loc())
                continue
            if kind == "Interface":
                ok = has_call(a, need) or has_field(a, TSD + "ObjectDefinition", "interfaces")
            elif kind == "Union":
                ok = has_field(a, TSD + "UnionDefinition", "possible_types")
            else:
                ok = True
            R.check("R01-b", "parents:" + kind, ok and not lossy,
                    "%s parent: %s" % (kind, {"Object": "the object itself", "Interface": "all implementers", "Union": "all members"}[kind]),
                    "for a %s parent the candidate runtime types are %s%s: responses whose __typename is a dropped type have no branch"
                    % (kind, "not enumerated from the schema" if not ok else "enumerated", (" and then cut down with %s" % lossy) if lossy else ""), loc=g0.loc())


def _b_implementers(P, R):
    imp0 = P.fn(PR + "utils::interface_implementers")
    imp = _inl(P, imp0)
    lossy = _cuts(imp, "ObjectDefinition", "TypeDefinition")
    ia = Prov(imp).deep_atoms(imp.body)
    reads = has_field(ia, TSD + "ObjectDefinition", "interfaces")
    scans = has_call(ia, "Schema::iter_types") or has_field(ia, "schema::Schema", "type_definitions") or has_field(ia, "schema::Schema", "type_names")
    pos = c02._positional_over(imp, {(TSD + "ObjectDefinition", "interfaces")})
    R.check("R01-b", "implementers-every-interface", not pos, "every interface an object lists is compared",
            "interface_implementers looks at an object's interfaces by position (%s): an object that lists the interface in another position is not a "
            "candidate, responses of that type have no branch" % sorted({b for _, b in pos}), loc=imp0.loc())
    _tri(R, "R01-b", "implementers-all", False if (lossy or not reads) else (True if scans else None),
         "implementers = every object of the schema that lists the interface",
         "interface_implementers truncates (%s) or never looks at the `interfaces` of an object" % lossy,
         "how interface_implementers walks the schema's types is not recognised (the run instance possible-types:Interface:run decides)", loc=imp0.loc())


def _b_products(P, R):
    """(2) both values per variable, full products, nothing filtered"""
    g0 = P.fn(OT + "type_printer::generate_branching_conditions")
    g = _inl(P, g0)
    c02._f_product_table(P, R, "R01-b", g0)
    calls = {c["method"] for c in g.walk() if c.get("k") == "MethodCall"}
    _tri(R, "R01-b", "assignments-product", True if "multi_cartesian_product" in calls else None, "assignments = product over the variables",
         und="no multi_cartesian_product in generate_branching_conditions: how the assignments of several variables are combined is not recognised "
             "(the run instance variables-both-values decides)", loc=g0.loc())
    _tri(R, "R01-b", "conditions-product", True if "cartesian_product" in calls else None, "conditions = parent objects x assignments",
         und="no cartesian_product in generate_branching_conditions: how parent objects and assignments are combined is not recognised (the run "
             "instances decide)", loc=g0.loc())
    cut = _cuts(g, "BranchingCondition", "ObjectDefinition", "bool")
    pvg = Prov(g)
    gbv = c02._role(P, OT + "type_printer::get_boolean_variables", ["QueryTypePrinterContext", "SelectionSet"], "Vec<&")
    vcut = sorted({x["method"] for x in g.walk() if x.get("k") == "MethodCall" and x["method"] in CUTTING and has_call(pvg.atoms(x["recv"]), gbv.path)})
    c02._Toward(R, c02._var_dirs(P)).check("R01-b", "variables-uncut", not vcut, "every enumerated variable takes part in the branching",
            "generate_branching_conditions cuts the list of enumerated boolean variables short (%s): a variable beyond the cut is in no branch, but the skip test still "
            "asks for it — generation panics on a valid document (or, with a lenient look-up, the selection is typed for one value only)" % vcut, loc=g0.loc())
    filt = sorted({c["method"] for c in g.walk() if c.get("k") == "MethodCall" and c["method"] in ("filter", "filter_map")})
    _tri(R, "R01-b", "conditions-unfiltered", False if cut else (None if filt else True), "no condition is filtered out",
         "conditions are cut down with %s" % cut, "generate_branching_conditions applies %s; whether a condition can be dropped is not decided" % filt, loc=g0.loc())


def _b_variables(P, R):
    """(3) the variable enumeration sees every selection and every directive of it (c02: paths of the enumeration, lossless traversal)"""
    c02._f_variables(P, R, "R01-b")


def _b_skip_coverage(P, R):
    """(3b) every variable the skip test can be asked about on a branch is enumerated for that branch"""
    c02._f_skip_coverage(P, R, "R01-b")


def _b_branch_per_condition(P, R):
    """(4) one branch per condition: get_type_for_selection_set maps every condition"""
    gt0 = P.fn(OT + "type_printer::get_type_for_selection_set")
    gt = _inl(P, gt0)
    lossy = _cuts(gt, "BranchingCondition", "SelectionTreeBranch")
    uses = has_call(Prov(gt).deep_atoms(gt.body), "type_printer::generate_branching_conditions")
    _tri(R, "R01-b", "branch-per-condition", False if lossy else (True if uses else None),
         "one branch per branching condition", "get_type_for_selection_set drops conditions (%s)" % lossy,
         "get_type_for_selection_set does not call generate_branching_conditions directly", loc=gt0.loc())


def _b_branch_per_condition_table(P, R):
    """two branching conditions: both of their branches are in the result, unless the one dropped is equal to the one kept.  Read from the paths of
    get_type_for_selection_set with the enumeration replaced by two undetermined conditions and the branch builder by two undetermined
    branches; a path that drops a branch although the two differ in the number of fields of a field list is the evidence."""
    gt0 = P.fn(OT + "type_printer::get_type_for_selection_set")
    gbc = P.fn(OT + "type_printer::generate_branching_conditions")
    go = P.fn(OT + "type_printer::get_object_type_for_selection_set")
    def thunk(ab):
        return ab.call(gt0.path, c02._params(gt0, [("type::Type<", lambda: c02._t_type(P, ("Named", "T")))]))

    def mk_branch(ab, args):
        b = c02._Opq("branch", [("call", go.path)])
        ab.event("made-branch", None, None, b)
        return b
    hooks = {gbc.path: lambda ab, args: [c02._Opq("condition 1"), c02._Opq("condition 2")], go.path: mk_branch}
    try:
        paths = c02._Abs(P, [gbc.path, go.path], hooks=hooks).explore(thunk)
    except c02._Unknown as e:
        R.undecided("R01-b", "branch-per-condition:table", "the abstract evaluation of %s does not decide whether every condition keeps its branch (%s)" % (gt0.path, e), loc=gt0.loc())
        return
    except (KeyError, IndexError, TypeError, AttributeError, RecursionError, ValueError) as e:
        R.undecided("R01-b", "branch-per-condition:table", "the abstract evaluation of %s does not decide this (evaluator: %r)" % (gt0.path, e), loc=gt0.loc())
        return
    # the branches of a path are the undetermined values its hook calls produced: recover them from the events
    seen, bad = 0, None
    for st, v, evs in paths:
        v = c02._d(v)
        if st != "ok" or not (isinstance(v, c02._Var) and v.name == "Object" and isinstance(c02._d(v.args[0]), list)):
            continue
        seen += 1
        kept = c02._d(v.args[0])
        made = [ev[3] for ev in evs if ev[0] == "made-branch"]
        if len(made) == 2 and len(kept) < 2:
            for fld in ("unaliased_fields", "aliased_fields"):
                n = [m.kids.get(("f", fld)) for m in made]
                if all(x is not None and "#n" in x.kids for x in n) and n[0].kids["#n"] != n[1].kids["#n"]:
                    bad = fld
    _tri(R, "R01-b", "branch-per-condition:table", None if not seen else bad is None, "table: every condition keeps its branch (a dropped one equals a kept one)",
         "table: %s drops the branch of a condition although its `%s` has a different number of fields than the branch it is taken to duplicate (the comparison "
         "walks the two lists in step and stops at the shorter one): the alternative with fewer sub-fields disappears from the union and the response for that "
         "variable assignment is not a member of the Result type" % (gt0.path, bad),
         "no abstract path of %s returns an object selection" % gt0.path, loc=gt0.loc())


def r01c(P, R):
    """what identifies a branch after it has been built"""
    go = _inl(P, P.fn(OT + "type_printer::get_object_type_for_selection_set"))
    pv = Prov(go)
    lits = [n for n in go.walk() if n.get("k") == "Struct" and "rest" not in n and norm(n.get("adt", "")) == STB]
    R.floor("R01-c", "SelectionTreeBranch constructions", len(lits), 1)
    bc_fields = set(P.adt(BC).fields())
    content = {"unaliased_fields", "aliased_fields"}
    for n in lits:
        ident = set()
        for fld in n["fields"]:
            if fld["name"] in content:
                continue
            ident |= {x[2] for x in pv.deep_atoms(fld["e"]) if x[0] == "field" and x[1] == BC}
        missing = sorted(bc_fields - ident)
        # who pairs branches, and by what
        try:
            mg = P.fn(OT + "deep_merge::merge_selection_trees")
            keys = sorted({x[2] for x in Prov(mg).atoms(mg.body) if x[0] == "field" and x[1] == STB and x[2] not in content})
        except AnchorMissing:
            keys = sorted(set(P.adt(STB).fields()) - content)
        R.check("R01-c", "merge-branch-key-drops-variables", not missing,
                "a branch carries every component of the condition it was built for",
                "a SelectionTreeBranch records only %s of its BranchingCondition (not %s) and merge_selection_trees pairs the branches of two "
                "occurrences of one response key by %s alone, taking the first match: when the occurrences branch on different boolean "
                "variables the merged union lacks the cases of the second occurrence's variable, so a conforming response is rejected "
                "(`me { id @skip(if:$f) } me { name @skip(if:$g) }` requires `name` even when $g is true)"
                % (sorted(ident) or "nothing", missing, keys), loc=go.loc())


KEYED = ("get", "get_mut", "insert", "entry", "contains_key", "contains", "remove", "get_or_insert_with", "get_key_value", "raw_entry")
MAPS = ("HashMap<", "BTreeMap<", "IndexMap<", "HashSet<", "BTreeSet<", "IndexSet<")


def _projection(pv, e):
    """how `e` is computed from the (name, value) pairs of `boolean_variables`: (pairs are taken apart?, names kept?, values kept?)"""
    names_kept = values_kept = destructured = False
    nodes = _src_nodes(pv, e)
    used = {y.get("local") for y in nodes if y.get("k") == "Path" and "local" in y}
    for y in nodes:
        ty = str(y.get("t") or "").replace("&", "").replace("'_ ", "").strip()
        if y.get("k") == "Tuple" and len(y.get("ps", [])) == 2 and ty.replace(" ", "") in ("(str,bool)",):
            destructured = True
            p0, p1 = y["ps"]
            names_kept = names_kept or (p0.get("k") == "Binding" and p0.get("local") in used)
            values_kept = values_kept or (p1.get("k") == "Binding" and p1.get("local") in used)
        if y.get("k") == "Field" and not y.get("adt") and str(y["e"].get("t") or "").replace("&", "").replace(" ", "") == "(str,bool)":
            destructured = True
            names_kept = names_kept or y["field"] == "0"
            values_kept = values_kept or y["field"] == "1"
    return destructured, names_kept, values_kept


def r01c_identity(P, R):
    """what a branch records of its condition besides its content is what later stages can pair branches by — across selection sets governed by
    different variables.  A component that keeps the values of the boolean variables but not their names, *and* that the merge reads when
    it pairs branches, makes branches of different assignments equal."""
    go0 = P.fn(OT + "type_printer::get_object_type_for_selection_set")
    go = _inl(P, go0)
    pv = Prov(go)
    content = {"unaliased_fields", "aliased_fields"}
    lits = [n for n in go.walk() if n.get("k") == "Struct" and "rest" not in n and norm(n.get("adt", "")) == STB]
    values_only = []
    for n in lits:
        for fld in n["fields"]:
            if fld["name"] in content or not has_field(pv.deep_atoms(fld["e"]), BC, "boolean_variables"):
                continue
            d, names, values = _projection(pv, fld["e"])
            if d and values and not names:
                values_only.append(fld["name"])
    if not values_only:
        R.holds("R01-c", "branch-identity:values-only", "no component of a branch holds the values of its variables without their names", loc=go0.loc())
        return
    mg0 = P.fn(OT + "deep_merge::merge_selection_trees")
    mg = _inl(P, mg0)
    mpv = Prov(mg)
    conds = [n["cond"] for n in mg.walk() if n.get("k") == "If"] + [x["args"][0] for x in mg.walk() if x.get("k") == "MethodCall" and x["args"]
                                                                      and x["args"][0].get("k") == "Closure" and x["method"] in ("find", "filter", "position", "any", "all", "rfind", "find_map", "filter_map")]
    read = sorted({f for cnd in conds for f in values_only if has_field(mpv.atoms(cnd), STB, f)})
    R.check("R01-c", "branch-identity:values-only", not read, "a values-only component of a branch is not used to pair branches",
            "a SelectionTreeBranch records %s as the *values* of its branch's boolean variables, without the variables' names, and merge_selection_trees pairs the "
            "branches of two occurrences of a response key by it: two occurrences governed by different variables (`a { x @skip(if:$v) } a { y @skip(if:$w) }`) "
            "have equal value vectors and are paired position by position, the mixed assignments (v true, w false) get no branch" % read, loc=go0.loc())


def r01c_keys(P, R):
    """a map keyed by (part of) a BranchingCondition — a memo of expansions, an index of branches — identifies branches across *all* selection sets
    that share the map.  The position of a variable in `boolean_variables` is the order in which one selection set happens to meet the
    variables, so a key that keeps the values but not the names of the variables gives two different assignments the same key."""
    seen = 0
    for name in ("get_fields_for_selection_set", "get_type_for_selection_set", "get_object_type_for_selection_set", "generate_branching_conditions"):
        try:
            f0 = P.fn(OT + "type_printer::" + name)
        except AnchorMissing:
            continue
        f = _inl(P, f0)
        pv = Prov(f)
        n = 0
        for c in f.walk():
            if c.get("k") != "MethodCall" or c["method"] not in KEYED or not c["args"]:
                continue
            t = str(c["recv"].get("t") or "") + str(c.get("self_ty") or "")
            if not any(m in t for m in MAPS):
                continue
            key = c["args"][0]
            if not has_field(pv.deep_atoms(key), BC, "boolean_variables"):
                continue
            n += 1
            seen += 1
            destructured, names_kept, values_kept = _projection(pv, key)
            k = "branch-key:%s#%d" % (name, n)
            shared = any(x[0] == "param" for x in pv.atoms(c["recv"]))
            if not destructured:
                R.holds("R01-c", k, "the key holds the (name, value) pairs of the boolean variables as they are", loc=f0.loc())
            elif not shared and not (names_kept or not values_kept):
                R.undecided("R01-c", k, "a map local to %s is keyed by the values of the boolean variables without their names; whether it lives longer than "
                            "one selection set (all of whose branches list the same variables in the same order) is not decided" % f0.path, loc=f0.loc())
            else:
                R.check("R01-c", k, names_kept or not values_kept, "the key names the variables whose values it holds",
                        "a map that %s receives from its caller (shared by every selection set of the definition) is keyed by the *values* of the branch's boolean variables in the order of `boolean_variables`, without the variables' "
                        "names: two selection sets that meet the variables in a different order (or different variables) produce the same key for different "
                        "assignments, so what was computed for one assignment is reused for another — fields are required / `?: never` under the wrong "
                        "condition" % f0.path, loc=f0.loc())
    if not seen:
        R.holds("R01-c", "branch-key:none", "no map is keyed by a branching condition")


def r01d(P, R):
    c02.r02e(P, _Relabel(R, "R01-d"))
    c02.r02f(P, _Relabel(R, "R01-d"))


def r01c_all(P, R):
    _sections(P, R, "R01-c", r01c, r01c_keys, r01c_identity)


RULES = [("R01-a", r01a), ("R01-b", r01b), ("R01-c", r01c_all), ("R01-d", r01d)]
EXPLANATION = (
    "Necessary conditions of completeness of the emitted Result types, decided from the typed HIR without executing anything. Provenance "
    "instances hold for all schemas and documents; `table:` / `paths:` instances read a finite decision table, or a property of every "
    "abstract path, out of the code by abstract evaluation over variant tags, booleans, the literals of the code and undetermined payloads "
    "(forking on every undetermined condition). (R01-a) the "
    "output-side nullability tables equal the spec table (a missing `| null` is reported); (R01-b) the case analysis behind the union of "
    "branches is complete — object itself / all implementers / all union members, both values of every boolean variable found by a "
    "visitor that sees every selection and every @skip/@include, combined by full cartesian products with no filter; (R01-c) a branch "
    "keeps every component of its condition, so that merging two occurrences of a response key cannot collapse cases, and a map shared by "
    "several selection sets that is keyed by a branch names the variables whose values it holds; (R01-d) the "
    "same-key merge table, the skip/include table and fast_equal (which licenses union de-duplication) are exact. NOT decided: the "
    "inclusion itself (membership of every response in the TypeScript type, the __SelectionSet utility type, scalar mappings).")
ASSUMPTIONS = ["itertools::cartesian_product / multi_cartesian_product / unique behave as documented",
               "rustc type checker resolves callees (facts)",
               "the abstract evaluator's models of std (Option, iterators, Vec, itertools products) are exact or raise: anything without a model is UNDECIDED",
               "TypeScript semantics of the emitted utility types is outside the claim"]


def main(tier):
    return harness.run_property("C01", RULES, "other", EXPLANATION, ASSUMPTIONS, tier)
