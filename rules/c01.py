"""C01 — Generated result types admit every spec-conformant response (structural clauses only).

What is decided here is *not* the inclusion "every response is a member of the emitted type" (that quantifies over responses and
TypeScript's semantics). It is the finite part of it that is visible in the generator: the union of branches the generator emits
is built from a complete case analysis — every possible runtime object type times every assignment of the boolean variables in
play — and no step between that case analysis and the printed union can drop a case or tighten a member:

  R01-a  exact nullability tables of the output side (shared with C02: the tables are compared for equality, so a missing `| null`
         — which makes the type too strict — is reported as well as a spurious one);
  R01-b  branch coverage: parent objects = the object / all implementers / all union members, each boolean variable contributes
         both values, the two are combined by a full cartesian product, the variable enumeration visits every selection and every
         @skip/@include directive, and nothing cuts the product down;
  R01-c  branch identity: whatever pairs the branches of two occurrences of one response key must distinguish everything a
         BranchingCondition distinguishes (else the merge collapses cases);
  R01-d  the merge table of same-key fields and the skip/include table are exact (shared with C02), and `fast_equal`, which licenses
         de-duplication of union members, never equates different types.

Structural instances look through helper functions (c02._inl) and are three-valued; instances whose message starts with `run:` are
decided by abstract execution of the generator on a fixed schema and a GraphQL selection, compared with the spec's result for that
input (see c02: _Interp, _Oracle) — a differing result is a concrete witness, an execution the interpreter cannot follow is UNDECIDED.
"""
import harness
from facts import norm, subnodes, matches_on, AnchorMissing
from prov import Prov, has_field, has_call
from templates import variant_table
import c02
from c02 import _inl, _sections, _tri, _scenario, _scn, TRUNCATING

PR = "nitrogql_printer::"
OT = PR + "operation_type_printer::"
TSD = "graphql_type_system::definitions::"
BC = OT + "branching::BranchingCondition"
STB = OT + "selection_tree::SelectionTreeBranch"


def r01a(P, R):
    # the C02 table rules are equalities against the spec table: they decide both directions
    c02.r02a(P, _Relabel(R, "R01-a"))


class _Relabel:
    """forwards to a Reporter, replacing the rule id (shared rule bodies report under this property's own rule ids)"""

    def __init__(self, R, new, _unused=None):
        self.R, self.new = R, new

    def __getattr__(self, name):
        f = getattr(self.R, name)
        if name in ("holds", "violated", "undecided", "check", "floor"):
            def g(rule, *a, **kw):
                return f(self.new, *a, **kw)
            return g
        return f


CUTTING = {"take", "skip", "step_by", "nth", "last", "truncate", "take_while", "skip_while", "map_while"}


def _cuts(fn, *about):
    """names of the adaptors in `fn` that cut a sequence short, applied to a sequence whose type mentions one of `about`"""
    out = set()
    for c in fn.walk():
        if c.get("k") == "MethodCall" and c["method"] in CUTTING:
            t = " ".join(str(c.get(k, "")) for k in ("recv_ty", "self_ty")) + str(c["recv"].get("t", ""))
            if any(a in t for a in about):
                out.add(c["method"])
    return sorted(out)


def r01b(P, R):
    _sections(P, R, "R01-b", _b_parents, _b_implementers, _b_products, _b_variables, _b_branch_per_condition, _b_runs)


def _b_parents(P, R):
    """(1) parent objects per kind"""
    g0 = P.fn(OT + "type_printer::generate_branching_conditions")
    g = _inl(P, g0)
    pv = Prov(g)
    ms = matches_on(g, "TypeDefinition")
    R.floor("R01-b", "kind match in generate_branching_conditions", len(ms), 1)
    for m in ms[:1]:
        tab = variant_table(m)
        for kind, need in (("Object", None), ("Interface", "utils::interface_implementers"), ("Union", None)):
            arm = tab.get(kind)
            if arm is None:
                # a catch-all arm may still enumerate by other means: the run instances possible-types:*:run decide
                R.undecided("R01-b", "parents:" + kind, "generate_branching_conditions has no explicit arm for %s parents" % kind, loc=g0.loc())
                continue
            a = pv.deep_atoms(arm["body"])
            lossy = sorted({c["method"] for c in subnodes(arm["body"]) if c.get("k") == "MethodCall" and c["method"] in TRUNCATING})
            if kind == "Interface":
                ok = has_call(a, need) or has_field(a, TSD + "ObjectDefinition", "interfaces")
            elif kind == "Union":
                ok = has_field(a, TSD + "UnionDefinition", "possible_types")
            else:
                ok = True
            R.check("R01-b", "parents:" + kind, ok and not lossy,
                    "%s parent: %s" % (kind, {"Object": "the object itself", "Interface": "all implementers", "Union": "all members"}[kind]),
                    "for a %s parent the candidate runtime types are %s%s: responses whose __typename is a dropped type have no branch"
                    % (kind, "not enumerated from the schema" if not ok else "enumerated", (" and then cut down with %s" % lossy) if lossy else ""), loc=g0.loc())


def _b_implementers(P, R):
    imp0 = P.fn(PR + "utils::interface_implementers")
    imp = _inl(P, imp0)
    lossy = _cuts(imp, "ObjectDefinition", "TypeDefinition")
    ia = Prov(imp).deep_atoms(imp.body)
    reads = has_field(ia, TSD + "ObjectDefinition", "interfaces")
    scans = has_call(ia, "Schema::iter_types") or has_field(ia, "schema::Schema", "type_definitions") or has_field(ia, "schema::Schema", "type_names")
    _tri(R, "R01-b", "implementers-all", False if (lossy or not reads) else (True if scans else None),
         "implementers = every object of the schema that lists the interface",
         "interface_implementers truncates (%s) or never looks at the `interfaces` of an object" % lossy,
         "how interface_implementers walks the schema's types is not recognised (the run instance possible-types:Interface:run decides)", loc=imp0.loc())


def _b_products(P, R):
    """(2) both values per variable, full products, nothing filtered"""
    g0 = P.fn(OT + "type_printer::generate_branching_conditions")
    g = _inl(P, g0)
    bools = sorted({x.get("v") for x in g.walk() if x.get("k") == "Lit" and x.get("lk") == "bool"})
    _tri(R, "R01-b", "variables-both-values:literals", True if bools == [False, True] else None,
         "every boolean variable contributes (v, false) and (v, true)",
         und="generate_branching_conditions mentions the boolean literals %s: how the values of a variable are enumerated is not recognised "
             "(the run instance variables-both-values decides)" % bools, loc=g0.loc())
    calls = {c["method"] for c in g.walk() if c.get("k") == "MethodCall"}
    _tri(R, "R01-b", "assignments-product", True if "multi_cartesian_product" in calls else None, "assignments = product over the variables",
         und="no multi_cartesian_product in generate_branching_conditions: how the assignments of several variables are combined is not recognised "
             "(the run instance variables-both-values decides)", loc=g0.loc())
    _tri(R, "R01-b", "conditions-product", True if "cartesian_product" in calls else None, "conditions = parent objects x assignments",
         und="no cartesian_product in generate_branching_conditions: how parent objects and assignments are combined is not recognised (the run "
             "instances decide)", loc=g0.loc())
    cut = _cuts(g, "BranchingCondition", "ObjectDefinition", "bool")
    filt = sorted({c["method"] for c in g.walk() if c.get("k") == "MethodCall" and c["method"] in ("filter", "filter_map")})
    _tri(R, "R01-b", "conditions-unfiltered", False if cut else (None if filt else True), "no condition is filtered out",
         "conditions are cut down with %s" % cut, "generate_branching_conditions applies %s; whether a condition can be dropped is not decided" % filt, loc=g0.loc())


def _b_variables(P, R):
    """(3) the variable enumeration sees every directive of every selection (decided by running the generator)"""
    c02._f_variable_runs(P, R, "R01-b")


def _b_branch_per_condition(P, R):
    """(4) one branch per condition: get_type_for_selection_set maps every condition"""
    gt0 = P.fn(OT + "type_printer::get_type_for_selection_set")
    gt = _inl(P, gt0)
    lossy = _cuts(gt, "BranchingCondition", "SelectionTreeBranch")
    uses = has_call(Prov(gt).deep_atoms(gt.body), "type_printer::generate_branching_conditions")
    _tri(R, "R01-b", "branch-per-condition", False if lossy else (True if uses else None),
         "one branch per branching condition", "get_type_for_selection_set drops conditions (%s)" % lossy,
         "get_type_for_selection_set does not call generate_branching_conditions directly (the run instances decide)", loc=gt0.loc())


def _b_runs(P, R):
    S = _scn(P)
    _scenario(R, "R01-b", "parents:Object:run", S, "User", "{ id }", "an object parent has its own branch")
    _scenario(R, "R01-b", "parents:Interface:run", S, "Named", "{ name }", "an interface parent has a branch for every implementing object (wherever the interface stands in its list)")
    _scenario(R, "R01-b", "parents:Union:run", S, "Thing", "{ __typename ... on Node { id } }", "a union parent has a branch for every member")
    _scenario(R, "R01-b", "conditions-product:run", S, "Node", "{ a: id @skip(if: $p) ... on Bot { m: model @include(if: $q) } }",
              "every possible object is combined with every assignment of the boolean variables")


def r01c(P, R):
    """what identifies a branch after it has been built"""
    go = _inl(P, P.fn(OT + "type_printer::get_object_type_for_selection_set"))
    pv = Prov(go)
    lits = [n for n in go.walk() if n.get("k") == "Struct" and "rest" not in n and norm(n.get("adt", "")) == STB]
    R.floor("R01-c", "SelectionTreeBranch constructions", len(lits), 1)
    bc_fields = set(P.adt(BC).fields())
    content = {"unaliased_fields", "aliased_fields"}
    for n in lits:
        ident = set()
        for fld in n["fields"]:
            if fld["name"] in content:
                continue
            ident |= {x[2] for x in pv.deep_atoms(fld["e"]) if x[0] == "field" and x[1] == BC}
        missing = sorted(bc_fields - ident)
        # who pairs branches, and by what
        try:
            mg = P.fn(OT + "deep_merge::merge_selection_trees")
            keys = sorted({x[2] for x in Prov(mg).atoms(mg.body) if x[0] == "field" and x[1] == STB and x[2] not in content})
        except AnchorMissing:
            keys = sorted(set(P.adt(STB).fields()) - content)
        R.check("R01-c", "merge-branch-key-drops-variables", not missing,
                "a branch carries every component of the condition it was built for",
                "a SelectionTreeBranch records only %s of its BranchingCondition (not %s) and merge_selection_trees pairs the branches of two "
                "occurrences of one response key by %s alone, taking the first match: when the occurrences branch on different boolean "
                "variables the merged union lacks the cases of the second occurrence's variable, so a conforming response is rejected "
                "(`me { id @skip(if:$f) } me { name @skip(if:$g) }` requires `name` even when $g is true)"
                % (sorted(ident) or "nothing", missing, keys), loc=go.loc())


def r01d(P, R):
    c02.r02e(P, _Relabel(R, "R01-d"))
    c02.r02f(P, _Relabel(R, "R01-d"))


RULES = [("R01-a", r01a), ("R01-b", r01b), ("R01-c", r01c), ("R01-d", r01d)]
EXPLANATION = (
    "Necessary conditions of completeness of the emitted Result types. Structural instances are decided for all schemas and documents; "
    "instances marked `run:` are decided by abstract execution of the generator over the typed HIR on a fixed small schema and a GraphQL "
    "selection (everything else undetermined), compared with the GraphQL spec's result for that input — a differing result is a concrete "
    "witness. (R01-a) the "
    "output-side nullability tables equal the spec table (a missing `| null` is reported); (R01-b) the case analysis behind the union of "
    "branches is complete — object itself / all implementers / all union members, both values of every boolean variable found by a "
    "visitor that sees every selection and every @skip/@include, combined by full cartesian products with no filter; (R01-c) a branch "
    "keeps every component of its condition, so that merging two occurrences of a response key cannot collapse cases; (R01-d) the "
    "same-key merge table, the skip/include table and fast_equal (which licenses union de-duplication) are exact. NOT decided: the "
    "inclusion itself (membership of every response in the TypeScript type, the __SelectionSet utility type, scalar mappings).")
ASSUMPTIONS = ["itertools::cartesian_product / multi_cartesian_product / unique behave as documented",
               "rustc type checker resolves callees (facts)",
               "the interpreter's models of std (Option, iterators, Vec, HashMap/HashSet, itertools products) are exact; anything else is UNDECIDED",
               "TypeScript semantics of the emitted utility types is outside the claim"]


def main(tier):
    return harness.run_property("C01", RULES, "other", EXPLANATION, ASSUMPTIONS, tier)
