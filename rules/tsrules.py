"""Shared rules over the TypeScript type construction (used by C02, C09, C10)."""
from facts import (norm, call_name, short, subnodes, lit_value, matches_on, arm_variants, field_reads, peel_ty)
from prov import Prov, has_field, has_call
from templates import variant_table, enclosing_contexts, LOSSY_OR_REORDERING, method_chain

PR = "nitrogql_printer::"
TSTYPE = PR + "ts_types::TSType"


def _bools(node):
    return [x.get("v") for x in subnodes(node) if x.get("k") == "Lit" and x.get("lk") == "bool"]


def nulltable_bottom_up(P, R, rule, impl, wrapper, type_enum):
    """style A: impl(ty) -> (TSType, nullable: bool); wrapper adds `| null` iff nullable.
       spec: Named -> nullable, List -> nullable and elements re-evaluated through the wrapper, NonNull -> not nullable
       (inner flag discarded)."""
    tag = short(impl.path)
    ms = matches_on(impl, type_enum)
    if not ms:
        R.undecided(rule, "nulltable:" + tag, "no match over %s in %s" % (type_enum, impl.path), loc=impl.loc())
        return
    tab = variant_table(ms[0])
    R.check(rule, "nulltable:%s:kinds" % tag, set(tab) == {"Named", "List", "NonNull"}, "Named/List/NonNull handled",
            "%s handles wrappers %s" % (impl.path, sorted(tab)), loc=impl.loc())
    for kind, flag in (("Named", True), ("List", True), ("NonNull", False)):
        arm = tab.get(kind)
        if arm is None:
            continue
        body = arm["body"]
        tups = [x for x in subnodes(body) if x.get("k") == "Tup" and len(x["es"]) == 2 and peel_ty(x.get("t", "")).endswith("bool)")]
        val = lit_value(tups[-1]["es"][1]) if tups else None
        R.check(rule, "nulltable:%s:%s" % (tag, kind), val is flag,
                "%s -> nullable=%s" % (kind, flag),
                "%s maps a %s type to nullable=%s; GraphQL types are nullable unless wrapped in Non-Null (expected %s): `| null` is %s"
                % (impl.path, kind, val, flag, "lost" if flag else "invented"), loc=impl.loc())
    # List: element through the wrapper (nullability of elements decided afresh)
    arm = tab.get("List")
    if arm is not None:
        calls = [call_name(x) for x in subnodes(arm["body"]) if x.get("k") == "Call" and call_name(x) in (impl.path, wrapper.path)]
        R.check(rule, "nulltable:%s:list-element" % tag, calls == [wrapper.path],
                "list elements get their own `| null` through %s" % wrapper.name,
                "%s computes list elements via %s: the element's nullability is not decided on its own (wrapper-exact nullability lost at one depth)"
                % (impl.path, [short(c) for c in calls]), loc=impl.loc())
    # NonNull: the inner flag is discarded
    arm = tab.get("NonNull")
    if arm is not None:
        lets = [x for x in subnodes(arm["body"]) if x.get("k") == "Let" and x["pat"].get("k") == "Tuple"]
        ok = bool(lets) and lets[0]["pat"]["ps"][1].get("k") == "Wild" and call_name(lets[0].get("init", {})) == impl.path
        R.check(rule, "nulltable:%s:nonnull-discards" % tag, ok, "NonNull recurses through the impl and discards the inner flag",
                "%s does not discard the inner nullability under NonNull" % impl.path, loc=impl.loc())
    # wrapper
    pv = Prov(wrapper)
    ifs = [x for x in wrapper.walk() if x.get("k") == "If"]
    ok = False
    for i in ifs:
        then_null = any(norm(x.get("def", "")).endswith("TSType::Null") for x in subnodes(i["then"]) if x.get("k") == "Path")
        else_null = "else" in i and any(norm(x.get("def", "")).endswith("TSType::Null") for x in subnodes(i["else"]) if x.get("k") == "Path")
        neg = any(x.get("k") == "Unary" and x.get("op") == "Not" for x in subnodes(i["cond"]))
        if then_null and not else_null and not neg:
            ok = True
    R.check(rule, "nulltable:%s:wrapper" % short(wrapper.path), ok, "`| null` is added exactly when the flag says nullable",
            "%s does not add `| null` exactly when nullable" % wrapper.path, loc=wrapper.loc())


def nulltable_top_down(P, R, rule, fn, enum_name, flag_param, flag_means_nonnull=True, wrap_kinds=("List", "Object")):
    """style B: fn(tree, is_non_null) — NonNull passes `true`, List resets to `false` for its element, and the kinds in
    wrap_kinds add `| null` iff !is_non_null."""
    tag = short(fn.path)
    ms = matches_on(fn, enum_name)
    if not ms:
        R.undecided(rule, "nulltable:" + tag, "no match over %s" % enum_name, loc=fn.loc())
        return
    tab = variant_table(ms[0])
    pv = Prov(fn)
    nparams = len(fn.params)
    fidx = [i for i, p in enumerate(fn.params) if p.get("name") == flag_param]
    if not fidx:
        R.undecided(rule, "nulltable:" + tag, "flag parameter `%s` not found" % flag_param, loc=fn.loc())
        return
    fidx = fidx[0]

    def rec_flag(arm):
        calls = [x for x in subnodes(arm["body"]) if x.get("k") == "Call" and call_name(x) == fn.path]
        out = []
        for c in calls:
            a = c["args"][fidx]
            v = lit_value(a)
            out.append(v if v is not None else ("param" if a.get("k") == "Path" and a.get("name") == flag_param else "?"))
        return out
    nn = tab.get("NonNull")
    if nn is not None:
        R.check(rule, "nulltable:%s:NonNull" % tag, rec_flag(nn) == [flag_means_nonnull], "NonNull passes %s down" % flag_means_nonnull,
                "%s: the NonNull arm passes %s as `%s`" % (fn.path, rec_flag(nn), flag_param), loc=fn.loc())
    li = tab.get("List")
    if li is not None:
        R.check(rule, "nulltable:%s:list-element" % tag, rec_flag(li) == [not flag_means_nonnull],
                "list elements start nullable again", "%s: the List arm passes %s as `%s` to its element (inherits the list's own "
                "non-null-ness instead of resetting it): `| null` lost on elements of non-null lists" % (fn.path, rec_flag(li), flag_param), loc=fn.loc())
    def null_if(i):
        then_null = any(norm(x.get("def", "")).endswith("TSType::Null") for x in subnodes(i["then"]) if x.get("k") == "Path")
        else_null = "else" in i and any(norm(x.get("def", "")).endswith("TSType::Null") for x in subnodes(i["else"]) if x.get("k") == "Path")
        return (flag_means_nonnull and else_null and not then_null) or ((not flag_means_nonnull) and then_null and not else_null)
    # a single `if flag { .. | null }` after the match covers every kind that falls through to it
    outer_ifs = [x for x in fn.walk() if x.get("k") == "If" and x["cond"].get("k") == "Path" and x["cond"].get("name") == flag_param
                 and not any(x in subnodes(a["body"]) for a in ms[0]["arms"])]
    covered_after_match = any(null_if(i) for i in outer_ifs)
    for kind in wrap_kinds:
        arm = tab.get(kind)
        if arm is None:
            continue
        if covered_after_match and not any(y.get("k") == "Ret" for y in subnodes(arm["body"])):
            R.holds(rule, "nulltable:%s:%s-null" % (tag, kind), "%s gets `| null` iff not non-null (shared tail)" % kind, loc=fn.loc())
            continue
        ifs = [x for x in subnodes(arm["body"]) if x.get("k") == "If" and x["cond"].get("k") == "Path" and x["cond"].get("name") == flag_param]
        ok = False
        for i in ifs:
            then_null = any(norm(x.get("def", "")).endswith("TSType::Null") for x in subnodes(i["then"]) if x.get("k") == "Path")
            else_null = "else" in i and any(norm(x.get("def", "")).endswith("TSType::Null") for x in subnodes(i["else"]) if x.get("k") == "Path")
            if flag_means_nonnull and else_null and not then_null:
                ok = True
            if (not flag_means_nonnull) and then_null and not else_null:
                ok = True
        R.check(rule, "nulltable:%s:%s-null" % (tag, kind), ok, "%s gets `| null` iff not non-null" % kind,
                "%s: the %s arm does not add `| null` exactly when the type is nullable" % (fn.path, kind), loc=fn.loc())


def namespace_targets(P, R, rule, fn, want_target, floor):
    """every TSType::NamespaceMember3 built in `fn` carries TypeTarget::<want_target>"""
    n = 0
    pv = Prov(fn)
    for c in fn.walk():
        if c.get("k") == "Call" and norm(c.get("callee", "")).endswith("TSType::NamespaceMember3"):
            n += 1
            a = pv.atoms(c["args"][1])
            targets = {x[1].split("::")[-1] for x in a if x[0] == "def" and "type_target::TypeTarget::" in x[1]}
            R.check(rule, "namespace:%s#%d" % (short(fn.path), n), targets == {want_target},
                    "refers to the %s namespace" % want_target,
                    "%s builds a schema reference into namespace %s; this position must use %s"
                    % (fn.path, sorted(targets) or "(not a TypeTarget constant)", want_target), loc=fn.loc())
    R.floor(rule, "namespace references in " + short(fn.path), n, floor)


def all_elements(P, R, rule, fn, adt, field, what, allowed=("iter", "map", "collect", "chain", "into_iter", "enumerate", "unzip", "cloned")):
    """the collection `adt.field` is consumed completely: no filtering/truncating adaptor on the chain that starts at it"""
    pv = Prov(fn)
    found = 0
    for c in fn.walk():
        if c.get("k") != "MethodCall":
            continue
        base, chain = method_chain(c)
        if base.get("k") == "Field" and norm(base.get("adt")) == adt and base["field"] == field:
            # only look at maximal chains: skip if parent is also a method call on this
            names = [x["method"] for x in chain]
            found += 1
            bad = [m for m in names if m in LOSSY_OR_REORDERING]
            if bad:
                R.violated(rule, "all:%s.%s@%s" % (adt.split("::")[-1], field, short(fn.path)),
                           "%s applies %s to %s: some %s are dropped from the declaration" % (fn.path, bad, field, what), loc=fn.loc())
                return
    if found:
        R.holds(rule, "all:%s.%s@%s" % (adt.split("::")[-1], field, short(fn.path)), "every element of `%s` is emitted (%s)" % (field, what), loc=fn.loc())
    else:
        R.violated(rule, "all:%s.%s@%s" % (adt.split("::")[-1], field, short(fn.path)),
                   "kind=anchor-missing: %s no longer iterates `%s.%s`" % (fn.path, adt.split("::")[-1], field), loc=fn.loc())


def fast_equal_sound(P, R, rule):
    """`fast_equal(a, b) == true` must imply the two TypeScript types are the same type: it licenses `dedup_by(fast_equal)` in
    ts_union / ts_intersection, where a false `true` silently removes a member (a variable, a branch). Per arm: both patterns name the
    same variant, every bound component takes part in the result, and object members are compared on key, type, readonly and optional
    if they are compared at all."""
    from facts import subnodes as sn
    f = P.fn("nitrogql_printer::ts_types::fast_equal::fast_equal")
    ms = [m for m in f.walk() if m.get("k") == "Match" and not m.get("x") and m["scrut"].get("k") == "Tup"]
    R.floor(rule, "fast_equal table", len(ms), 1)
    OF = "nitrogql_printer::ts_types::ObjectField"
    n = 0
    for arm in ms[0]["arms"]:
        pat, body = arm["pat"], arm["body"]
        while body.get("k") == "BlockExpr" and not body["b"].get("stmts"):
            body = body["b"].get("tail") or body
        v = lit_value(body)
        if v is False and not arm.get("guard"):
            continue
        n += 1
        if pat.get("k") != "Tuple" or len(pat.get("ps", [])) != 2:
            R.violated(rule, "fast-equal:catch-all", "fast_equal answers `true`/computed for a catch-all pattern: unrelated types can compare equal", loc=f.loc())
            continue
        l, r = pat["ps"]
        lv, rv = norm(l.get("ctor_of") or l.get("def") or ""), norm(r.get("ctor_of") or r.get("def") or "")
        name = lv.split("::")[-1] or "?"
        if not lv or lv != rv:
            R.violated(rule, "fast-equal:%s" % name, "fast_equal can answer true for two different variants (%s vs %s)" % (lv, rv), loc=f.loc())
            continue
        binds = [b for b in sn(pat) if b.get("k") == "Binding"]
        used = {y.get("local") for y in sn(body) if y.get("k") == "Path" and "local" in y}
        wild = [w for w in sn(pat) if w.get("k") == "Wild"]
        unused = [b["name"] for b in binds if b["local"] not in used]
        ok = not unused and not (wild and v is not False)
        reads = {y["field"] for y in sn(body) if y.get("k") == "Field" and norm(y.get("adt", "")) == OF}
        need = {"key", "type", "readonly", "optional"}
        if reads and not need <= reads:
            ok = False
            why = "object members are compared on %s only (missing %s): two objects with different %s are `equal`" % (sorted(reads), sorted(need - reads), sorted(need - reads))
        else:
            why = "components %s do not take part in the comparison" % (unused or "behind `_`")
        R.check(rule, "fast-equal:%s" % name, ok, "%s: all components compared" % name, "fast_equal(%s, %s): %s, so dedup_by(fast_equal) can drop a "
                "member that is not a duplicate" % (name, name, why), loc=f.loc())
    R.floor(rule, "fast_equal arms that can answer true", n, 10)
