"""Emission skeleton of functions that print through a SourceMapWriter (DESIGN.md §4 `emit`)."""
from facts import norm, lit_value, call_name
from templates import enclosing_contexts

SMW = "sourcemap_writer::writer::SourceMapWriter::"


def emission(fn):
    """ordered [(index, kind, literal-or-None, node)] of write / write_for / write_fmt / indent / dedent calls"""
    out = []
    for i, (n, _) in enumerate(fn.nodes()):
        if n.get("k") != "MethodCall":
            continue
        c = norm(n.get("callee") or "")
        if not c.startswith(SMW):
            continue
        kind = c[len(SMW):]
        lit = lit_value(n["args"][0]) if n["args"] else None
        out.append((i, kind, lit, n))
    return out


def next_after(em, pos):
    return em[pos + 1] if pos + 1 < len(em) else None


def guard_fields(fn, idx, pv):
    """field atoms of the `if` conditions enclosing node idx (then-branches only)"""
    out = set()
    for c in enclosing_contexts(fn, idx):
        if c[0] == "if-then":
            out |= {a for a in pv.atoms(c[1]["cond"]) if a[0] == "field"}
    return out
