"""Cross-cutting state discipline, applied to every property over the code that property is about (rule id Rnn-s).

Two rule families that many properties need and none owns:

* MEMO  (templates.memo_rule): every guard that skips or reuses work because run-time state says "already done" is either one of
  the reviewed seen-sets of the pinned tree (tables/memo_guards.json) or a new memo whose key must cover every input of the
  function; an uncovered new memo is a violation of whatever the skipped work decides (a validation rule not applied, a
  fragment not expanded, a type computed for another variable assignment, output that depends on what was processed before).
* GLOBAL (templates.global_state_*): process-wide mutable state (statics, thread-locals, OnceCell/Lazy memos).  The holders of
  the pinned tree are reviewed (tables/global_state.json); a new holder touched by in-scope code must be keyed by every
  parameter of the function that consults it (or, for an unkeyed once-memo, depend on none).

Both are necessary conditions of "the result is a function of this call's inputs", which every property presupposes.
"""
import json
import os

from facts import short
from templates import memo_rule, global_state_holders, global_state_uses

WORKSPACE = ["nitrogql_", "graphql_loader", "sourcemap_writer", "graphql_type_system", "graphql_builtins"]
OTP = ["nitrogql_printer::operation_type_printer", "nitrogql_printer::ts_types"]
# helper modules shared by several printers: a function of these is in a property's scope only when the property's own code reaches it
SHARED = ["nitrogql_printer::utils"]
# the properties about printed types and runtime documents; for the others (CLI behaviour, loader tasks, ...) a memo inside a printer
# helper changes *what* is printed, which is not their subject
SHARED_USERS = {"C01", "C02", "C09", "C10", "C12"}
SCOPES = {
    "C01": (OTP, "the Result type printed for one selection set is computed from another's"),
    "C02": (OTP, "the Result type printed for one selection set is computed from another's"),
    # operations only: the schema-side checker (type_system_checker) is C05's subject
    "C03": (["nitrogql_checker::operation_checker", "nitrogql_checker::common", "nitrogql_checker::types", "nitrogql_checker::error",
             "nitrogql_semantics::direct_fields_of_output_type"], "a construct escapes validation because a different context was checked first"),
    "C04": (["nitrogql_checker::operation_checker", "nitrogql_checker::common", "nitrogql_checker::types", "nitrogql_checker::error",
             "nitrogql_semantics::direct_fields_of_output_type"], "a valid construct is judged with facts remembered from another document or operation"),
    "C05": (["nitrogql_checker::type_system_checker", "nitrogql_checker::common", "nitrogql_checker::types"], "a definition escapes a rule because an earlier definition consumed the memo"),
    "C06": (["sourcemap_writer"], "segments of one output are encoded relative to state left by another"),
    "C07": (["nitrogql_parser"], "the parsed document or its positions depend on what was parsed before"),
    "C08": (["nitrogql_parser", "nitrogql_error"], "state left by an earlier call makes a later call take an unreviewed path"),
    "C09": (OTP + ["nitrogql_printer::schema_type_printer", "nitrogql_config_file::scalar_type"], "the Variables type depends on earlier documents"),
    "C10": (["nitrogql_printer::schema_type_printer", "nitrogql_printer::resolver_type_printer", "nitrogql_printer::ts_types", "nitrogql_printer::jsdoc",
             "nitrogql_plugin"], "declarations printed for one schema are computed from another's"),
    "C11": (["nitrogql_semantics::schema_extension_resolver"], "an extension is merged according to state left by another definition"),
    "C12": (["nitrogql_printer::json_printer", "nitrogql_printer::operation_js_printer", "nitrogql_printer::operation_base_printer",
             "graphql_loader::js_printer"], "the fragments embedded for one definition depend on earlier definitions or documents"),
    "C13": (["nitrogql_semantics::operation_import_resolver", "nitrogql_semantics::operation_extension_resolver"], "a file is skipped or re-expanded according to state from another traversal"),
    "C14": (["nitrogql_printer::operation_base_printer", "nitrogql_printer::operation_js_printer", "nitrogql_printer::operation_type_printer::visitor",
             "nitrogql_printer::operation_type_printer::mod", "graphql_loader::js_printer"], "names or exports follow options remembered from an earlier configuration"),
    "C15": (["nitrogql_introspection", "nitrogql_semantics::type_system_to_ast", "nitrogql_semantics::ast_to_type_system", "graphql_type_system"],
            "one route reuses state the other does not have"),
    "C16": (["nitrogql_printer::graphql_printer", "sourcemap_writer::js_string_writer", "nitrogql_cli::builtins"], "the printed schema depends on earlier output"),
    "C17": (["nitrogql_printer", "nitrogql_semantics", "nitrogql_checker", "graphql_type_system", "nitrogql_parser", "sourcemap_writer", "nitrogql_plugin",
             "nitrogql_introspection", "nitrogql_utils"], "output depends on what the process handled before (history dependence)"),
    "C18": (["nitrogql_cli"], "diagnostics or written files depend on state from an earlier command"),
    "C19": (["graphql_loader::loader", "graphql_loader::tasks", "graphql_loader::task", "graphql_loader::js_printer"], "a task observes state left by another task"),
    "C20": (["nitrogql_utils"], "a path is computed from an earlier call's inputs"),
}
_GS = None


def _gs_table():
    global _GS
    if _GS is None:
        try:
            _GS = json.load(open(os.path.join(os.path.dirname(os.path.dirname(os.path.abspath(__file__))), "tables", "global_state.json")))
        except Exception:
            _GS = []
    return _GS


def _reviewed_holder(path, ty):
    crate = path.split("::")[0]
    for r in _gs_table():
        if r["crate"] == crate and (r["name"] == path.split("::")[-1] or all(x in ty for x in r["type_has"])):
            return r
    return None


def state_rules(P, R, prop):
    rule = "R%s-s" % prop[1:]
    prefixes, what = SCOPES[prop]
    own = [f for p, f in P.fns.items() if not f.derived and "::tests" not in p and any(p.startswith(x) or p.startswith("<" + x) for x in prefixes)]
    allow = set()
    if prop in SHARED_USERS and not any(any(x.startswith(sh) or sh.startswith(x) for x in prefixes) for sh in SHARED):
        try:
            allow = {p for p in P.reachable(own) if any(p.startswith(sh) for sh in SHARED)}
        except Exception:
            allow = {p for p in P.fns if any(p.startswith(sh) for sh in SHARED)}
    # ITER-RESUME: a short-circuiting consumer applied again and again to one iterator created outside the repeated context
    import iterresume
    hits = 0
    for f in own + [P.fns[p] for p in sorted(allow) if not P.fns[p].derived and "::tests" not in p]:
        for name, meth, ctx, line in iterresume.scan(f.raw):
            hits += 1
            R.violated(rule, "iter-resume:%s:%s" % (short(f.path), name),
                       "%s calls `%s.%s(..)` inside %s, but the iterator `%s` is created outside it: each repetition resumes where the "
                       "previous one stopped, so elements before an earlier hit are never looked at again and the answer depends on the "
                       "order of the underlying sequence (%s)" % (f.path, name, meth, ctx, name, what), loc="%s:%d" % (f.file, line))
    if not hits:
        R.holds(rule, "iter-resume:none", "no short-circuiting consumer is re-applied to an iterator that outlives the repeated context it runs in")
    # positive control: the detector must fire on engine/selfcheck (closure form and loop form) and stay silent on the fresh-iterator twin
    import harness
    from facts import Program
    SC = Program(harness.selfcheck_facts())
    got = {f.name: [h[0] for h in iterresume.scan(f.raw)] for f in SC.fns.values() if f.name.startswith("iter_")}
    want = {"iter_resumed_in_closure": ["hay"], "iter_resumed_in_loop": ["it"], "iter_fresh_each_time": []}
    R.check(rule, "iter-resume:control", all(got.get(k) == v for k, v in want.items()), "iter-resume controls classified as expected (2 fire, 1 silent)",
            "self-check: the iter-resume detector returns %r on the control crate (expected %r): the rule cannot be trusted" % (got, want))
    memo_rule(P, R, rule, prefixes, what, allow)
    holders = global_state_holders(P)
    new = {h: v for h, v in holders.items() if _reviewed_holder(h, v[0]) is None}
    R.count("global_state_holders", len(holders))
    scope = own + [P.fns[p] for p in sorted(allow) if not P.fns[p].derived and "::tests" not in p]
    if not new:
        R.holds(rule, "global:no-new-holder", "process-wide mutable state is exactly the reviewed set (%d holders)" % len(holders))
        return
    touched = False
    for f, h, missing, key in global_state_uses(P, scope, new):
        touched = True
        k = "global:%s" % short(h)
        if missing is None:
            R.undecided(rule, k, "%s touches the new process-wide state %s in a way this rule does not read" % (short(f.path), h), loc=f.loc())
        elif missing:
            R.violated(rule, k, "%s consults the new process-wide state %s (%s) but its entry is %s; the stored value also depends on %s, and the state "
                       "outlives the call: a later call is served what an earlier one computed (%s)"
                       % (f.path, h, new[h][0][:80], ("keyed by %s only" % key) if key else "not keyed", missing, what), loc=f.loc())
        else:
            R.holds(rule, k, "new process-wide state %s is keyed by every input of %s" % (h, short(f.path)), loc=f.loc())
    if not touched:
        R.holds(rule, "global:no-new-holder", "new process-wide state exists (%s) but nothing in this property's code touches it" % sorted(short(h) for h in new))
