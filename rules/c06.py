"""C06 — Emitted source maps are valid and point at the defining GraphQL tokens (structural clauses)."""
import re
import harness
from facts import norm, call_name, short, subnodes, lit_value, peel_ty
from prov import Prov, has_field, has_call
from mirq import MirQ
from templates import enclosing_contexts, inlined, scope_fns, _contains as templates_contains

SW = "sourcemap_writer::source_writer::SourceWriter"
MW = "sourcemap_writer::source_writer::mapping_writer::MappingWriter"
POS = "nitrogql_ast::base::Pos"
SMW = "sourcemap_writer::writer::SourceMapWriter::"
SMW_WRITE_FOR = "<" + SW + " as sourcemap_writer::writer::SourceMapWriter>::write_for"
SMW_WRITE = "<" + SW + " as sourcemap_writer::writer::SourceMapWriter>::write"
USIZE_MAX = "<usize>::MAX"


# ------------------------------------------------------------------------------------------------ local helpers
# (module-local on purpose: shared modules are not edited by this module's owner; candidates for templates.py/prov.py)
def _every(g):
    return True


def _returns_filemap(g):
    """constructors of the FileMap, and functions that hand out the SourceWriter prepared from one"""
    return "::FileMap" in (g.sig_output or "") or (g.sig_output or "").endswith("::SourceWriter")


def _not_utf16_len(g):
    return not g.path.endswith("utf16_len::utf16_len")


_INL = {}


def inl(P, fn, pred=_every):
    """templates.inlined(fn) in which every inlined copy of a callee has its own local ids: a helper called several times does not
    merge the provenance of its call sites.  The copy is private to this module (the predicate is part of the cache key)."""
    key = (id(P), fn.path, pred)
    g = _INL.get(key)
    if g is None:
        g = inlined(P, fn, 3, pred)
        n = 0
        st = [g.body]
        while st:
            x = st.pop()
            if isinstance(x, list):
                st.extend(x)
                continue
            if not isinstance(x, dict):
                continue
            if "inl" in x:
                n += 1
                _rename_locals(x["inl"], "#%d" % n)
            st.extend(v for v in x.values() if isinstance(v, (dict, list)))
        g._nodes = None
        _INL[key] = g
    return g


def _rename_locals(root, suffix):
    st = [root]
    while st:
        x = st.pop()
        if isinstance(x, list):
            st.extend(x)
        elif isinstance(x, dict):
            if "local" in x:
                x["local"] = "%s%s" % (x["local"], suffix)
            st.extend(v for v in x.values() if isinstance(v, (dict, list)))


def strip(e):
    """expression without casts, borrows, derefs, temporaries and statement-less blocks"""
    while isinstance(e, dict):
        k = e.get("k")
        if k in ("DropTemps", "Use", "Cast", "Type", "AddrOf") and isinstance(e.get("e"), dict):
            e = e["e"]
        elif k == "Unary" and e.get("op") == "Deref":
            e = e["e"]
        elif k == "BlockExpr" and not e["b"]["stmts"] and "tail" in e["b"]:
            e = e["b"]["tail"]
        else:
            break
    return e


def cond_ctx(fn, idx):
    return tuple(id(c[1]) for c in enclosing_contexts(fn, idx) if c[0] in ("if-then", "if-else", "arm"))


def is_sentinel(P, n, depth=0):
    """`usize::MAX`, or a workspace constant defined as it"""
    n = strip(n)
    if not isinstance(n, dict) or n.get("k") != "Path" or "def" not in n:
        return False
    d = norm(n["def"])
    if d == USIZE_MAX:
        return True
    c = P.fns.get(d)
    if c is not None and str(c.kind).startswith(("Const", "AssocConst")) and depth < 2:
        return is_sentinel(P, c.body, depth + 1)
    return False


_FOLD = {"+": lambda a, b: a + b, "-": lambda a, b: a - b, "*": lambda a, b: a * b, "|": lambda a, b: a | b, "&": lambda a, b: a & b,
         "<<": lambda a, b: a << b if 0 <= b < 64 else None, ">>": lambda a, b: a >> b if 0 <= b < 64 else None}


def int_of(P, e, depth=0):
    """integer value of a constant expression: a literal, a workspace constant, or arithmetic over those (`1 << SHIFT`,
    `BASE - 1`); None otherwise"""
    e = strip(e)
    if not isinstance(e, dict) or depth > 6:
        return None
    v = lit_value(e)
    if v is not None:
        try:
            return int(str(v))
        except ValueError:
            return None
    if e.get("k") == "Path" and "def" in e:
        c = P.fns.get(norm(e["def"]))
        if c is not None and str(c.kind).startswith(("Const", "AssocConst")):
            return int_of(P, c.body, depth + 1)
    if e.get("k") == "Binary" and e.get("op") in _FOLD:
        a, b = int_of(P, e["l"], depth + 1), int_of(P, e["r"], depth + 1)
        if a is not None and b is not None:
            return _FOLD[e["op"]](a, b)
    return None


# ---------------------------------------------------------------------------------------------------- vocabulary by role
def base_assigns(V, fn):
    """(delta base, assigned expression, node index) for every update of a delta base in fn: `self.b = e`, `self.rec.b = e`, or the
    whole record at once — `self.rec = Rec { b: e, .. }` (one update per field written in the literal; a `..rest` keeps the
    others) or `self.rec = <anything else>` (every base, from that expression)"""
    pv = None
    for i, (n, _) in enumerate(fn.nodes()):
        if n.get("k") != "Assign":
            continue
        l = strip(n["l"])
        if isinstance(l, dict) and l.get("k") == "Path" and "local" in l and str(l.get("t", "")).startswith("&mut") and n["l"].get("k") == "Unary":
            # `*slot = e` where slot is a `&mut` to exactly one delta base (picked by a selector closure / helper)
            if V.base_holder and peel_ty(l.get("t", "")) == V.base_adt:
                # the whole record is replaced through a `&mut` to it
                r = strip(n["r"])
                if isinstance(r, dict) and r.get("k") == "Struct" and "rest" not in r and norm(r.get("adt", "")) == V.base_adt:
                    for f_ in r["fields"]:
                        if f_["name"] in V.bases:
                            yield f_["name"], f_["e"], i
                else:
                    for b in V.bases:
                        yield b, n["r"], i
                continue
            pv = pv or state_prov(V, fn)
            hit = sorted({a[2] for a in pv.atoms(l) if a[0] == "field" and a[1] == V.base_adt and a[2] in V.bases})
            if len(hit) == 1:
                yield hit[0], n["r"], i
            continue
        if not isinstance(l, dict) or l.get("k") != "Field":
            continue
        if norm(l.get("adt")) == V.base_adt and l["field"] in V.bases:
            yield l["field"], n["r"], i
        elif V.base_holder and norm(l.get("adt")) == MW and l["field"] == V.base_holder:
            r = strip(n["r"])
            if isinstance(r, dict) and r.get("k") == "Struct" and "rest" not in r and norm(r.get("adt", "")) == V.base_adt:
                for f_ in r["fields"]:
                    if f_["name"] in V.bases:
                        yield f_["name"], f_["e"], i
                if r.get("base") is None:
                    continue
            else:
                for b in V.bases:
                    yield b, n["r"], i


def state_prov(V, fn):
    """per-field provenance of add_entry in which a local that merely *refers* to the writer's state (`let Self { base, .. } = self`,
    `&mut self.previous`) does not absorb what is stored into that state: `*base = Rec { .. }` updates the state, it does not make
    every later read of `base.x` depend on all the segment's fields"""
    pv = Prov(fn, field_assign=False)
    for n in fn.walk():
        if n.get("k") in ("Assign", "AssignOp") and n["l"].get("k") == "Unary":
            l = strip(n["l"])
            if isinstance(l, dict) and l.get("k") == "Path" and "local" in l and str(l.get("t", "")).startswith("&mut") and l["local"] in pv.src:
                pv.src[l["local"]] = [x for x in pv.src[l["local"]] if x[0] is not n["r"]]
    pv._memo = {}
    return pv


def is_base(V, e):
    e = strip(e)
    return e["field"] if isinstance(e, dict) and e.get("k") == "Field" and norm(e.get("adt")) == V.base_adt and e["field"] in V.bases else None


class Vocab:
    """The names this property talks about, located by what the code does with them rather than by how they are spelled, so that a
    consistent renaming of the writer's fields and methods changes nothing.  The two writer *types* and the SourceMapWriter trait
    are the fixed anchors; every member falls back to its pinned name when its role cannot be read off the code."""

    def __init__(self, P):
        self.P = P
        self.write = P.fn(SMW_WRITE)
        self.write_for = P.fn(SMW_WRITE_FOR)
        sw_types = P.adt(SW).field_types()
        mw_types = P.adt(MW).field_types()
        # --- SourceWriter fields, read off `write` and the helpers it calls
        w = inl(P, self.write, _not_utf16_len)
        pv = Prov(w, field_assign=False)
        text = [pv.params[p["local"]] for p in w.params[1:2] if p.get("k") == "Binding"]
        adv, true_flags = {}, set()
        for n in w.walk():
            f, e = advance_of(n, SW)
            if f:
                adv.setdefault(f, []).append(e)
            if n.get("k") == "Assign" and n["l"].get("k") == "Field" and norm(n["l"].get("adt")) == SW and str(lit_value(n["r"])).lower() == "true":
                true_flags.add(n["l"]["field"])
        cols = sorted(f for f, es in adv.items() if text and any(("param", text[0]) in pv.atoms(e) for e in es))
        self.f_col = cols[0] if len(cols) == 1 else "current_column"
        lines = sorted(f for f, es in adv.items() if f not in cols and all(int_of(P, e) is not None for e in es))
        self.f_line = lines[0] if len(lines) == 1 else "current_line"
        flags = sorted(f for f in true_flags if sw_types.get(f) == "bool")
        self.f_flag = flags[0] if len(flags) == 1 else "has_indent_flag"
        mappers = [f for f, t in sw_types.items() if "Option<" in t and "Vec<usize>" in t]
        self.f_mapper = mappers[0] if len(mappers) == 1 else "file_index_mapper"
        widths = sorted({a[2] for es in adv.get(self.f_col, []) for e in es for a in pv.atoms(e)
                         if a[0] == "field" and a[1] == SW and sw_types.get(a[2]) == "usize" and a[2] not in (self.f_col, self.f_line)})
        self.f_indent = widths[0] if len(widths) == 1 else "indent"
        # --- SourceWriter methods
        own = [g for g in P.fns.values() if g.self_adt == SW and not g.derived and not g.impl_trait and "::tests" not in g.path]

        def assigns(g, field, value=None):
            return any(n.get("k") == "Assign" and n["l"].get("k") == "Field" and norm(n["l"].get("adt")) == SW and n["l"]["field"] == field
                       and (value is None or str(lit_value(n["r"])).lower() == value) for n in g.walk())
        fl = [g for g in own if assigns(g, self.f_flag, "false") and g.path in P.reachable([self.write]) and g.raw.get("params") and len(g.params) == 1]
        self.flush = fl[0] if len(fl) == 1 else P.fn(SW + "::flush_pending_indent")
        sm = [g for g in own if assigns(g, self.f_mapper) and len(g.params) == 2]
        self.set_mapper = sm[0] if len(sm) == 1 else P.fn(SW + "::set_file_index_mapper")
        # --- MappingWriter: the delta bases are its counters; add_entry is the method write_for drives
        # (they may be grouped in one record-typed field of the writer: `last: Reference { .. }`)
        self.base_adt, self.base_holder = MW, None
        self.bases = [f for f, t in mw_types.items() if t == "usize"]
        if len(self.bases) < 2:
            recs = [(f, P.adts[t]) for f, t in mw_types.items() if t in P.adts and P.adts[t].kind == "Struct"
                    and sum(1 for x in P.adts[t].field_types().values() if x == "usize") >= 2]
            if len(recs) == 1:
                self.base_holder, self.base_adt = recs[0][0], recs[0][1].path
                self.bases = [f for f, t in recs[0][1].field_types().items() if t == "usize"]
        scope = scope_fns(P, self.write_for)
        ae = [g for g in scope if g.self_adt == MW and not g.derived and not g.impl_trait and any(True for _ in base_assigns(self, g))]
        ae = [g for g in ae if not any(g.path in P.callees_of(h)[0] for h in ae if h is not g)] or ae
        self.add_entry = ae[0] if len(ae) == 1 else P.fn(MW + "::add_entry")
        self.name_fns = {g.path for g in P.fns.values() if (g.self_adt or "").endswith("::NameMapper") and g.sig_output == "usize"}
        # --- the VLQ encoder: the function that indexes the 64-entry digit table, and its wrappers
        crate = [g for g in P.fns.values() if g.crate == self.write.crate and g.kind == "Fn" and "::test" not in g.path and not g.derived]
        cores = [g for g in crate if any(digit_table(P, x) for x in g.walk())]
        self.vlq_core = cores[0] if len(cores) == 1 else P.fn("sourcemap_writer::base64_vlq::base64_vlq")
        self.vlq_fns = {g.path for g in crate if self.vlq_core.path in P.reachable([g]) and any(peel_ty(t) == "isize" for t in g.sig_inputs)} | {self.vlq_core.path}
        self.utf16_len = P.fn("sourcemap_writer::source_writer::utf16_len::utf16_len", required=False)   # may be inlined away / replaced by a std idiom
        # --- which counter remembers what: told by the field names when they use the Source Map vocabulary
        roles = {}
        for b in self.bases:
            r = token_role(b)
            if r:
                roles.setdefault(r, []).append(b)
        self.base_role = {v[0]: r for r, v in roles.items() if len(v) == 1} if len(roles) == 6 and all(len(v) == 1 for v in roles.values()) else {}


_VOCAB = {}


def vocab(P):
    if id(P) not in _VOCAB:
        _VOCAB[id(P)] = Vocab(P)
        _STATE_ADTS.add(_VOCAB[id(P)].base_adt)
    return _VOCAB[id(P)]


ROLES = ["gcol", "src", "oline", "ocol", "name"]          # Source Map v3 order of the VLQ fields of a segment
ROLE_NAME = {"gline": "generated line", "gcol": "generated column", "src": "source index", "oline": "original line", "ocol": "original column",
             "name": "name index"}


def token_role(field):
    t = set(field.lower().split("_"))
    line, col = bool(t & {"line"}), bool(t & {"column", "col"})
    gen, orig = bool(t & {"generated", "gen"}), bool(t & {"original", "orig"})
    if "name" in t and not (line or col):
        return "name"
    if t & {"file", "source", "src"} and not (line or col or gen or orig):
        return "src"
    if (line != col) and (gen != orig):
        return ("g" if gen else "o") + ("line" if line else "col")
    return None


def advance_of(n, adt):
    """(`field`, e) for `self.field += e` / `self.field = self.field + e` on a field of `adt`; (None, None) otherwise"""
    def fld(x):
        x = strip(x)
        return x["field"] if isinstance(x, dict) and x.get("k") == "Field" and norm(x.get("adt")) == adt else None
    if n.get("k") == "AssignOp" and n.get("op") == "+=" and fld(n["l"]):
        return fld(n["l"]), n["r"]
    if n.get("k") == "Assign" and fld(n["l"]):
        b = strip(n["r"])
        if b.get("k") == "Binary" and b.get("op") == "+":
            for own_, other in ((b["l"], b["r"]), (b["r"], b["l"])):
                if fld(own_) == fld(n["l"]):
                    return fld(n["l"]), other
    return None, None


def digit_table(P, x):
    """the 64 digits when `x` indexes a workspace constant holding them (chars or a byte string); None otherwise"""
    if x.get("k") != "Index":
        return None
    b = strip(x["e"])
    if not (isinstance(b, dict) and b.get("k") == "Path" and "def" in b):
        return None
    c = P.fns.get(norm(b["def"]))
    if c is None or not str(c.kind).startswith(("Const", "AssocConst", "Static")):
        return None
    chars = "".join(y.get("v") for y in c.walk() if y.get("k") == "Lit" and y.get("lk") == "char")
    if not chars:
        for y in c.walk():
            if y.get("k") == "Lit" and isinstance(y.get("v"), list) and y.get("lk") == "bytes":
                chars = "".join(chr(i) for i in y["v"])
            elif y.get("k") == "Lit" and y.get("lk") == "str" and isinstance(y.get("v"), str):
                chars = y["v"]
    return (chars, c) if len(chars) == 64 else None


TRANSPARENT = {"clone", "to_owned", "as_ref", "as_mut", "borrow", "borrow_mut", "unwrap", "expect", "into", "copied", "cloned", "deref"}
OPTION_LIKE = ("core::option::Option::Some", "core::result::Result::Ok")


class Comp:
    """Component-sensitive provenance inside one (virtually inlined) function: what the component `path` (a sequence of field
    names / tuple positions) of an expression's value is computed from.  Sees through struct and tuple literals (incl. `..base`),
    locals bound once, destructuring patterns and inlined same-crate helpers, so that passing six scalars, a tuple or a nested
    struct gives the same answer.  comp() -> (atoms, precise) or None when the shape is not recognised; atoms are Prov atoms plus
    ("op", operator) for arithmetic met at the leaves."""

    def __init__(self, P, fn):
        self.P, self.fn = P, fn
        self.pv = Prov(fn, field_assign=False)   # locals assigned field-wise are left to `multi` below (-> not recognised)
        self.single = {}    # local -> its only initialiser (plain `let`, or the argument of an inlined parameter)
        self.patb = {}      # local -> (initialiser, field path inside the destructuring pattern)
        self.param_ix = {}
        multi = set()
        for i, p in enumerate(fn.params):
            if p.get("k") == "Binding" and "sub" not in p:
                self.param_ix[p["local"]] = i
        for n in fn.walk():
            k = n.get("k")
            if k in ("Let", "LetExpr"):
                self._bind(n["pat"], n.get("init"), multi)
            elif k == "Match":
                for arm in n["arms"]:
                    self._bind(arm["pat"], n["scrut"], multi)
            elif k in ("Call", "MethodCall") and "inl" in n:
                args = ([n["recv"]] if k == "MethodCall" else []) + n["args"]
                for pp, aa in zip(n["inl"]["params"], args):
                    self._bind(pp, aa, multi)
            elif k in ("Assign", "AssignOp"):
                b = n["l"]
                while b.get("k") in ("Field", "Index", "Unary"):
                    b = b["e"]
                if b.get("k") == "Path" and "local" in b:
                    multi.add(b["local"])
        for l in multi:
            self.single.pop(l, None)
            self.patb.pop(l, None)

    def _bind(self, pat, init, multi):
        if pat.get("k") == "Binding" and "sub" not in pat:
            l = pat["local"]
            if l in self.single or l in self.patb or init is None:
                multi.add(l)
            else:
                self.single[l] = init
            return
        self._pat(pat, init, (), multi)

    def _pat(self, pat, init, path, multi):
        k = pat.get("k")
        if k == "Binding":
            l = pat["local"]
            if l in self.single or l in self.patb or init is None:
                multi.add(l)
            else:
                self.patb[l] = (init, path)
            if "sub" in pat:
                self._pat(pat["sub"], init, path, multi)
        elif k == "Struct":
            for f in pat["fields"]:
                self._pat(f["p"], init, path + (f["name"],), multi)
        elif k == "TupleStruct":
            ctor = norm(pat.get("ctor_of") or pat.get("def") or "")
            for i, p in enumerate(pat["ps"]):
                self._pat(p, init, path if (ctor in OPTION_LIKE and len(pat["ps"]) == 1) else path + ("%s.%d" % (ctor, i),), multi)
        elif k == "Tuple":
            for i, p in enumerate(pat["ps"]):
                self._pat(p, init, path + (("?" if "ddpos" in pat else str(i)),), multi)
        elif k in ("Ref", "Deref", "Box", "Guard"):
            self._pat(pat["p"], init, path, multi)
        elif k in ("Or", "Slice"):
            for b in subnodes(pat):
                if b.get("k") == "Binding":
                    multi.add(b["local"])

    # ----------------------------------------------------------------------------------------------------------- callee side
    def access(self, e, depth=0):
        """(parameter index, field path) when `e` is a component of a parameter of the function; None otherwise"""
        e = strip(e)
        if depth > 12 or not isinstance(e, dict):
            return None
        k = e.get("k")
        if k == "Field":
            r = self.access(e["e"], depth + 1)
            return (r[0], r[1] + (e["field"],)) if r else None
        if k == "MethodCall" and e.get("method") in TRANSPARENT:
            return self.access(e["recv"], depth + 1)
        if k == "Path" and "local" in e:
            l = e["local"]
            if l in self.param_ix:
                return (self.param_ix[l], ())
            if l in self.single:
                return self.access(self.single[l], depth + 1)
            if l in self.patb:
                init, p = self.patb[l]
                r = self.access(init, depth + 1)
                return (r[0], r[1] + p) if r else None
        return None

    def resolve(self, e, depth=0):
        """the expression a once-bound local stands for"""
        e = strip(e)
        while depth < 12 and isinstance(e, dict) and e.get("k") == "Path" and e.get("local") in self.single:
            e = strip(self.single[e["local"]])
            depth += 1
        return e

    # ----------------------------------------------------------------------------------------------------------- caller side
    def _returns(self, call):
        body = call["inl"]["body"]
        out = [x["e"] for x in subnodes(body) if x.get("k") == "InlRet" and "e" in x and not self._in_nested_inl(body, x)]
        if body.get("k") == "BlockExpr":
            if "tail" in body["b"]:
                out.append(body["b"]["tail"])
        else:
            out.append(body)
        return out

    @staticmethod
    def _in_nested_inl(body, node):
        return any("inl" in y and y is not node and templates_contains(y["inl"], node) for y in subnodes(body) if y.get("k") in ("Call", "MethodCall"))

    def _union(self, parts):
        atoms, precise = set(), True
        for r in parts:
            if r is None:
                return None
            atoms |= r[0]
            precise = precise and r[1]
        return atoms, precise

    def comp(self, e, path=(), depth=0):
        e = strip(e)
        if not isinstance(e, dict):
            return (set(), True)
        if depth > 24:
            return None
        k = e.get("k")
        path = tuple(path)
        if k == "Field":
            r = self.comp(e["e"], (e["field"],) + path, depth + 1)
            if r is not None:
                return r
            # opaque base (a parameter, the result of a foreign call ...): the field atom itself names the component
            base = self.pv.atoms(e["e"])
            atom = ("field", norm(e["adt"]), e["field"]) if e.get("adt") else ("tuplefield", e["field"])
            return ({atom} | set(base), not any(a[0] == "ctor" for a in base))
        if k == "Path" and "local" in e:
            l = e["local"]
            if l in self.single:
                return self.comp(self.single[l], path, depth + 1)
            if l in self.patb:
                init, p = self.patb[l]
                return self.comp(init, p + path, depth + 1)
            if path:
                return None
            a = self.pv.atoms(e)
            return (set(a), not any(x[0] == "ctor" for x in a))
        if k == "Struct" and "rest" not in e:
            if path:
                for f in e["fields"]:
                    if f["name"] == path[0]:
                        return self.comp(f["e"], path[1:], depth + 1)
                if e.get("base") is not None:
                    return self.comp(e["base"], path, depth + 1)
                return None
            return self._union([self.comp(f["e"], (), depth + 1) for f in e["fields"]]
                               + ([self.comp(e["base"], (), depth + 1)] if e.get("base") is not None else []))
        if k == "Tup" and path:
            if path[0].isdigit() and int(path[0]) < len(e["es"]):
                return self.comp(e["es"][int(path[0])], path[1:], depth + 1)
            return None
        if k in ("Call", "MethodCall"):
            if k == "Call" and norm(e.get("callee") or "") in OPTION_LIKE and len(e["args"]) == 1:
                return self.comp(e["args"][0], path, depth + 1)
            if k == "MethodCall" and e.get("method") in TRANSPARENT and path:
                return self.comp(e["recv"], path, depth + 1)
            if "inl" in e and path:
                return self._union([self.comp(r, path, depth + 1) for r in self._returns(e)])
            if path:
                return None
        if path:
            if k == "If":
                return self._union([self.comp(e["then"], path, depth + 1)] + ([self.comp(e["else"], path, depth + 1)] if "else" in e else []))
            if k == "Match":
                return self._union([self.comp(a["body"], path, depth + 1) for a in e["arms"]])
            if k == "BlockExpr" and "tail" in e["b"]:
                return self.comp(e["b"]["tail"], path, depth + 1)
            return None
        # leaf: everything the expression is computed from
        atoms = set()
        if k == "Lit":
            atoms.add(("lit", e.get("v")))
        elif k == "Path" and "def" in e:
            atoms.add(("def", norm(e["def"])))
        elif k in ("Binary", "AssignOp"):
            atoms.add(("op", e.get("op")))
        elif k in ("Call", "MethodCall"):
            c = call_name(e)
            if c:
                atoms.add(("call", c))
            if e.get("callee"):
                atoms.add(("call", norm(e["callee"])))
        elif k in ("Binding", "Wild", "TupleStruct", "PatExpr", "Tuple", "Or", "Ref", "Range", "Slice") or (k == "Struct" and "rest" in e):
            return (atoms, True)
        parts = [(atoms, True)]
        if k in ("Call", "MethodCall") and "inl" in e:
            parts.extend(self.comp(r, (), depth + 1) for r in self._returns(e))   # what the same-crate helper computes its result from
        for key, v in e.items():
            if key == "inl" or not isinstance(v, (dict, list)):
                continue
            for c in _direct(v):
                parts.append(self.comp(c, (), depth + 1))
        r = self._union(parts)
        if r is None:
            a = self.pv.atoms(e)
            return (set(a), False)
        return r


def _direct(v):
    """nearest descendants that are nodes"""
    out = []
    st = [v]
    while st:
        x = st.pop()
        if isinstance(x, list):
            st.extend(reversed(x))
        elif isinstance(x, dict):
            if "k" in x:
                out.append(x)
            else:
                st.extend(y for y in x.values() if isinstance(y, (dict, list)))
    return out


def utf16_measured(V, atoms):
    """is a length among these atoms measured in UTF-16 code units?  True: through the crate's utf16_len helper, `encode_utf16()` or
    `char::len_utf16`; False: by a count of chars / bytes (`chars().count()`, `len()`, `len_utf8`); None: no measure recognised"""
    calls = {a[1].split("::")[-1] for a in atoms if a[0] == "call"}
    if (V.utf16_len is not None and has_call(atoms, V.utf16_len.path)) or calls & {"encode_utf16", "len_utf16"}:
        return True
    bad = sorted(calls & {"count", "len", "len_utf8"})
    return False if bad else None


def outside_param(atoms):
    """the value arrives through a parameter and nothing is known about where it was read from (no field of the cursor or of the
    node position among its atoms): it was computed by a caller this rule does not see"""
    return any(a[0] == "param" and a[1] != "self" for a in atoms) and not any(a[0] == "field" and a[1] in (SW, POS) for a in atoms)


def delta_bases(P):
    return vocab(P).bases


def entry_roles(P):
    """{delta base: (parameter index of add_entry, field path)} — the component of add_entry's input that each last_* field
    remembers (and is subtracted from); this is what gives an argument of add_entry its meaning, independently of parameter
    order, names or packaging.  A base whose update and subtraction disagree has no role (R06-a reports it)."""
    V = vocab(P)
    f = inl(P, V.add_entry)
    C = Comp(P, f)

    found = {}
    for b, e, _ in base_assigns(V, f):
        if int_of(P, e) is None:      # a constant re-bases the field (new line); it says nothing about which input the field remembers
            found.setdefault(b, []).append(C.access(e))
    for n in f.walk():
        if n.get("k") == "Binary" and n.get("op") == "-" and is_base(V, C.resolve(n["r"])):
            found.setdefault(is_base(V, C.resolve(n["r"])), []).append(C.access(n["l"]))
    return {b: v[0] for b, v in found.items() if len(set(v)) == 1 and v[0] is not None}


def entry_component(C, call, role):
    idx, path = role
    args = ([call["recv"]] if call.get("k") == "MethodCall" else []) + call["args"]
    if idx >= len(args):
        return None
    return C.comp(args[idx], path)


def add_entry_calls(P, fn):
    return [c for c in fn.walk() if c.get("k") in ("MethodCall", "Call") and (call_name(c) or "") == vocab(P).add_entry.path]


# ------------------------------------------------------------------------------------------------------------- rules
def quantity(atoms):
    """the input quantity an expression of add_entry stands for: its non-self parameters and the fields read from them"""
    return frozenset(a for a in atoms if (a[0] == "param" and a[1] != "self") or (a[0] == "field" and a[1] != MW and a[1] not in _STATE_ADTS) or a[0] == "tuplefield")


_STATE_ADTS = set()      # record types that hold the mapping writer's delta bases (filled by vocab())


def qname(q):
    return ".".join(sorted(a[-1] for a in q)) or "?"


SUBTRACTIONS = {"wrapping_sub", "checked_sub", "saturating_sub", "overflowing_sub", "abs_diff", "sub"}


def r06a(P, R):
    """delta-base discipline in MappingWriter::add_entry"""
    V = vocab(P)
    f0 = V.add_entry
    f = inl(P, f0)
    pv = state_prov(V, f)
    acc = f.nodes()
    bases = V.bases

    def last_fields(atoms):
        return sorted({a[2] for a in atoms if a[0] == "field" and a[1] == V.base_adt and a[2] in bases})
    deltas = {}   # last field -> [(quantity, ctx, op)]
    for i, (n, _) in enumerate(acc):
        k = n.get("k")
        if k == "Binary" and n.get("op") in ("-", "!="):
            l, r, op = n["l"], n["r"], n["op"]
        elif k == "MethodCall" and n.get("method") in SUBTRACTIONS and len(n["args"]) == 1:
            l, r, op = n["recv"], n["args"][0], "-"
        else:
            continue
        la, ra = pv.atoms(l), pv.atoms(r)
        lf, rf = last_fields(la), last_fields(ra)
        if op == "-" and len(rf) == 1 and not lf and quantity(la):
            deltas.setdefault(rf[0], []).append((quantity(la), cond_ctx(f, i), "-"))
        elif op == "!=" and len(lf) + len(rf) == 1 and quantity(ra if lf else la):
            deltas.setdefault((lf or rf)[0], []).append((quantity(ra if lf else la), cond_ctx(f, i), "!="))
    assigns = {}
    for b_, e_, i in base_assigns(V, f):
        if quantity(pv.atoms(e_)):        # a constant (`= 0` when a new line starts) re-bases the field; it is not the per-segment update
            assigns.setdefault(b_, []).append((quantity(pv.atoms(e_)), cond_ctx(f, i)))
    R.floor("R06-a", "delta bases (last_* fields)", len(bases), 6)
    reads = {n["field"] for n in f.walk() if n.get("k") == "Field" and norm(n.get("adt")) == V.base_adt}
    rebuilt = any(n.get("k") == "Struct" and "rest" not in n and norm(n.get("adt", "")) == MW for n in f.walk())
    qb = {}
    for b in bases:
        ds = [d for d in deltas.get(b, []) if d[2] == "-"]
        asg = assigns.get(b, [])
        if not deltas.get(b):
            if b in reads:
                R.undecided("R06-a", b + ":used", "delta base `%s` is read, but not in a subtraction this rule recognises" % b, loc=f.loc())
            else:
                R.violated("R06-a", b + ":used", "delta base `%s` is never subtracted from a parameter" % b, loc=f.loc())
            continue
        p_delta = {d[0] for d in deltas.get(b, [])}
        if not asg:
            borrowed = any(n.get("k") == "AddrOf" and n.get("mut") and strip(n["e"]).get("k") == "Field" and strip(n["e"]).get("field") == b for n in f.walk())
            if rebuilt or borrowed:
                R.undecided("R06-a", b + ":updated", "`%s` is not assigned directly (the writer is rebuilt or the field is borrowed mutably)" % b, loc=f.loc())
            else:
                R.violated("R06-a", b + ":updated", "delta base `%s` is assigned 0 time(s) in add_entry (expected exactly one update): every later "
                           "segment's delta is taken from a stale value" % b, loc=f.loc())
            continue
        if len({a[0] for a in asg}) == 1:
            qb[b] = asg[0][0]
        R.check("R06-a", b + ":same-quantity", len(p_delta) == 1 and {a[0] for a in asg} == p_delta,
                "`%s` is the previous value of `%s`" % (b, qname(sorted(p_delta, key=sorted)[0])),
                "`%s` is subtracted from %s but updated from %s" % (b, sorted(qname(q) for q in p_delta), sorted(qname(a[0]) for a in asg)), loc=f.loc())
        if len(asg) != 1:
            R.undecided("R06-a", b + ":updated-on-emission-paths", "`%s` is assigned at %d places; their path conditions are not compared" % (b, len(asg)), loc=f.loc())
            continue
        ctx_asg = asg[0][1]
        # update happens on every path on which the delta was emitted
        ctxs = [d[1] for d in ds] or [()]
        if all(ctx_asg == c[:len(ctx_asg)] for c in ctxs):
            R.holds("R06-a", b + ":updated-on-emission-paths", "updated on every path that emits its delta", loc=f.loc())
        elif any(len(c) < len(ctx_asg) and c == ctx_asg[:len(c)] for c in ctxs):
            R.violated("R06-a", b + ":updated-on-emission-paths", "`%s` is updated under a condition, but its delta is also emitted where that condition "
                       "does not hold: the next delta is taken from a stale value" % b, loc=f.loc())
        else:
            R.undecided("R06-a", b + ":updated-on-emission-paths", "`%s` is updated and subtracted under conditions this rule cannot compare" % b, loc=f.loc())
    # field order of a segment: generated column, source, original line, original column[, name] — every VLQ field is identified by
    # the delta base that remembers the quantity it is computed from
    order, problem = vlq_order(P, f, pv, qb)
    R.floor("R06-a", "VLQ emissions", len(order), 5)
    if not order:
        pass
    elif problem or not V.base_role:
        R.undecided("R06-a", "segment-field-order", problem or "the counters' names do not say which quantity each remembers; the order is checked "
                    "against what write_for passes (R06-c)", loc=f.loc())
    else:
        got = ["|".join(V.base_role.get(b, b) for b in o) for o in order]
        R.check("R06-a", "segment-field-order", got == ROLES, "segment fields are emitted in Source Map v3 order",
                "segment fields are computed from the quantities remembered in %s; Source Map v3 requires [column, source, line, column, name], "
                "each field from its own quantity only" % ["|".join(o) for o in order], loc=f.loc())
    # within one mappings string only the generated column starts over (at each new generated line); source, original line,
    # original column and name are relative to the previous segment throughout — add_entry may re-base none of them to a constant
    role_of = {b_: r_ for r_, b_ in segment_roles(P).items()}
    rebased = {}
    for b_, e_, i in base_assigns(V, f):
        if not quantity(pv.atoms(e_)) and int_of(P, e_) is not None:
            rebased.setdefault(b_, []).append(int_of(P, e_))
    for b_ in sorted(rebased):
        if b_ not in role_of:
            R.undecided("R06-a", b_ + ":rebased", "`%s` is set to a constant in add_entry and the field of the segment it stands for is not known" % b_, loc=f.loc())
        else:
            R.check("R06-a", b_ + ":rebased", role_of[b_] == "gcol", "only the generated column starts over within a mappings string",
                    "add_entry sets `%s` (the %s base) to the constant %s: in a Source Map v3 mappings string only the generated column starts over "
                    "(on a new line); the %s of every segment is relative to the previous segment, whatever its source or line — the decoder keeps "
                    "its running value, so every later segment is shifted" % (b_, ROLE_NAME[role_of[b_]], rebased[b_], ROLE_NAME[role_of[b_]]), loc=f.loc())
    restart_rule(P, R)


def vlq_order(P, f, pv, qb):
    """([bases involved in the k-th distinct VLQ field of a segment], problem | None) read off the calls of the VLQ encoder in
    add_entry (an inl() copy), in emission order; qb: base -> the quantity it remembers"""
    V = vocab(P)
    acc = f.nodes()
    vlq = []
    for i, (n, _) in enumerate(acc):
        if n.get("k") == "Call" and (call_name(n) or "") in V.vlq_fns and not any("inl" in p and (call_name(p) or "") in V.vlq_fns for p in f.parents_of(i)):
            val = [a for a in n["args"] if peel_ty(a.get("t", "")) == "isize"]
            sink = any(peel_ty(a.get("t", "")) == "alloc::string::String" for a in n["args"])
            nested = any(p.get("k") == "MethodCall" and peel_ty(p["recv"].get("t", "")) == "alloc::string::String" for p in f.parents_of(i))
            vlq.append((n, val[0] if len(val) == 1 else None, sink or nested))
    order, problem = [], None
    for n, val, direct in vlq:
        if val is None or not direct:
            problem = "a VLQ field is not appended where it is computed"
            continue
        q = quantity(pv.atoms(val))
        inv = [b for b in V.bases if qb.get(b) and qb[b] <= q]
        if not inv:
            problem = "a VLQ field cannot be tied to a delta base"
        if not order or order[-1] != inv:
            order.append(inv)
    if len([b for b in V.bases if b in qb]) < len(V.bases):
        problem = problem or "not every delta base has a single remembered quantity"
    return order, problem


def restart_rule(P, R):
    """co-assigned state: a method that empties the text buffer of a writer in place starts a new mappings string / a new generated
    file, which is decoded from the origin — it has to put *every* counter of the group back, not all but one"""
    V = vocab(P)
    groups = ((MW, V.bases, "delta base", V.add_entry), (SW, [V.f_line, V.f_col], "cursor field", V.write))
    n = 0
    for T, group, what, producer in groups:
        # the output buffer of the writer: the String field its producing method appends to
        strs = set()
        for x in inl(P, producer, _not_utf16_len).walk():
            if x.get("k") == "MethodCall" and x.get("method") in ("push", "push_str", "extend", "write_str", "write_fmt", "insert_str"):
                tgt = [x["recv"]]
            elif x.get("k") == "Call" and (call_name(x) or "") in V.vlq_fns:
                tgt = [a_ for a_ in x["args"] if peel_ty(a_.get("t", "")) == "alloc::string::String"]
            else:
                continue
            for t_ in tgt:
                t_ = strip(t_)
                if isinstance(t_, dict) and t_.get("k") == "Field" and norm(t_.get("adt")) == T and peel_ty(t_.get("t", "")) == "alloc::string::String":
                    strs.add(t_["field"])
        for m in sorted((g for g in P.fns.values() if g.self_adt == T and not g.derived and "::tests" not in g.path), key=lambda g: g.path):
            if not m.params or not str(m.params[0].get("t", "")).startswith("&mut"):
                continue
            mi = inl(P, m)

            def own(x):
                x = strip(x)
                return x["field"] if isinstance(x, dict) and x.get("k") == "Field" and norm(x.get("adt")) == T else None
            empties = False
            for x in mi.walk():
                k = x.get("k")
                if k == "Call" and (call_name(x) or "").endswith(("mem::take", "mem::replace", "mem::swap")) and any(own(a) in strs for a in x["args"]):
                    empties = True
                elif k == "MethodCall" and x.get("method") in ("clear", "drain", "truncate", "split_off") and own(x["recv"]) in strs:
                    empties = True
                elif k == "Assign" and own(x["l"]) in strs:
                    empties = True
            if not empties:
                continue
            n += 1
            whole = any(x.get("k") == "Assign" and strip(x["l"]).get("k") == "Path" and strip(x["l"]).get("name") == "self" for x in mi.walk())
            assigned = {own(x["l"]) for x in mi.walk() if x.get("k") in ("Assign", "AssignOp")}
            if T == MW:
                assigned |= {b_ for b_, _, _ in base_assigns(V, mi)}
            missing = [] if whole else [b for b in group if b not in assigned]
            R.check("R06-a", "restart:%s" % short(m.path), not missing, "restarting the buffer resets every %s" % what,
                    "%s empties the writer's buffer in place (what follows is a new mappings string / file, decoded from the origin) and resets "
                    "the other %ss but not %s: the first delta after the restart is taken from the previous output's value"
                    % (m.path, what, ", ".join("`%s`" % b for b in missing)), loc=m.loc())
    if not n:
        R.holds("R06-a", "restart:none", "no method restarts a writer's buffer in place (writers are consumed by into_buffers)")


def r06b(P, R):
    """sentinel guard: usize::MAX placed in file_indices must not reach add_entry"""
    rg = inl(P, P.fn("nitrogql_cli::generate::run_generate"), _returns_filemap)
    produces = [n for n in rg.walk() if is_sentinel(P, n)]
    wf = vocab(P).write_for
    guards = [n for g in scope_fns(P, wf) for n in g.walk() if is_sentinel(P, n)]
    wfi = inl(P, wf)
    pvw = Prov(wfi)
    idx_reads = [n for n in wfi.walk() if n.get("k") == "Index" and has_field(pvw.atoms(n["e"]), SW, vocab(P).f_mapper)]
    R.floor("R06-b", "file-index lookups in write_for", len(idx_reads), 1)
    if not produces:
        R.holds("R06-b", "sentinel-reaches-add_entry", "no sentinel is produced")
        return
    R.check("R06-b", "sentinel-reaches-add_entry", bool(guards),
            "write_for filters the `usize::MAX` sentinel",
            "generate.rs marks files that are not sources of the current output with usize::MAX, and SourceWriter::write_for hands "
            "`file_index_mapper[pos.file]` to add_entry without testing for it: a node from such a file (a fragment imported from "
            "another operation file) gets source index usize::MAX as isize = -1", loc=wf.loc(),
            detail={"sentinel_sites": len(produces)})
    # the consumer that builds `sources` filters the same sentinel: some function run_generate reaches in its crate compares an
    # index with it — when the sentinel is stored in the FileMap's table at all (it may be introduced only where the table is handed
    # to the SourceWriter, the table itself marking non-sources another way)
    w = P.fn("nitrogql_cli::generate::write_file_and_sourcemap")
    rg0 = P.fn("nitrogql_cli::generate::run_generate")
    in_table = [n for g in [rg0] + [g for g in scope_fns(P, rg0) if "::FileMap" in (g.sig_output or "")] for n in g.walk() if is_sentinel(P, n)]
    if not in_table:
        R.holds("R06-b", "sources-filter-sentinel", "the index table stores no sentinel (it is introduced at the SourceWriter boundary only)", loc=w.loc())
        return
    wi = inl(P, w)
    pvw = Prov(wi)
    fm_adt = P.adt("FileMap")
    table_f = [f_ for f_, t in fm_adt.field_types().items() if "usize" in t]
    srcs = [c for c in wi.walk() if c.get("k") == "Call" and (call_name(c) or "").endswith("print_source_map_json") and len(c["args"]) > 1]
    if srcs and table_f and not any(has_field(pvw.atoms(c["args"][1]), fm_adt.path, f_) for c in srcs for f_ in table_f):
        R.holds("R06-b", "sources-filter-sentinel", "`sources` is not read off the index table (nothing to filter)", loc=w.loc())
        return
    tests = [n for g in scope_fns(P, P.fn("nitrogql_cli::generate::run_generate")) + scope_fns(P, w) for n in g.walk()
             if (n.get("k") == "Binary" and n.get("op") in ("==", "!=") and (is_sentinel(P, n["l"]) or is_sentinel(P, n["r"])))
             or (n.get("k") == "PatExpr" and is_sentinel(P, n))]
    R.check("R06-b", "sources-filter-sentinel", bool(tests), "`sources` lists exactly the files whose index is not the sentinel",
            "the sentinel is put into the index table, but nothing run_generate reaches compares an index with it when building `sources`", loc=w.loc())


def r06c(P, R):
    V = vocab(P)
    wf = V.write_for
    FLUSH = V.flush.path
    ADD = V.add_entry.path
    scope = [g for g in scope_fns(P, wf) if g.path in P.mir and g.path not in (FLUSH, ADD)]
    mqs = {g.path: MirQ(P.mir[g.path]) for g in scope}

    def must_emit(path, depth=0):
        """a helper that records exactly what add_entry records: every normal return is preceded by a segment"""
        mq = mqs.get(path)
        if mq is None or depth > 2 or path == wf.path:
            return False
        em = mq.calls_to(lambda p: p == ADD or (p != path and must_emit(p, depth + 1)))
        rets = mq.returns()
        return bool(rets) and all(any(mq.dominates(e_, r_) for e_ in em) for r_ in rets)

    def must_flush(path, depth=0):
        """every normal return of the function is preceded by a flush"""
        mq = mqs.get(path)
        if mq is None or depth > 2:
            return False
        fl = mq.calls_to(lambda p: p == FLUSH or (p != path and must_flush(p, depth + 1)))
        rets = mq.returns()
        return bool(rets) and all(any(mq.dominates(f_, r_) for f_ in fl) for r_ in rets)

    def flushed_before(path, block, depth=0):
        """is the block dominated by a flush in its function — or, for a helper, is every call of the helper (up to write_for) so?
        True / False / None (callers unknown)"""
        mq = mqs[path]
        if any(mq.dominates(fl, block) for fl in mq.calls_to(lambda p: p == FLUSH or must_flush(p))):
            return True
        if path == wf.path:
            return False
        sites = [(h, b) for h, hq in mqs.items() if h != path for b in hq.calls_to(lambda p: p == path)]
        if not sites or depth > 2:
            return None
        vs = [flushed_before(h, b, depth + 1) for h, b in sites]
        return False if any(v is False for v in vs) else (True if all(v is True for v in vs) else None)
    n_adds = n_named = 0
    for g in scope:
        # the segments of a named node may be emitted by write_for itself or by a helper it calls
        mq = mqs[g.path]
        adds = mq.calls_to(lambda p: p == ADD or (p != g.path and must_emit(p)))
        maps = mq.calls_to(lambda p: p in V.name_fns)
        named = [a for a in adds if any(mq.dominates(m, a) for m in maps)]
        n_adds += len(adds)
        n_named += len(named)
        if not named:
            continue
        verdicts = [flushed_before(g.path, a) for a in named]
        if all(v is True for v in verdicts) or any(v is False for v in verdicts):
            R.check("R06-c", "flush-before-named-segment", all(v is True for v in verdicts), "pending indentation is flushed before the generated column of a named segment is read",
                    "in the named-node branch of write_for, add_entry is not dominated by flush_pending_indent: the segment points into the "
                    "indentation instead of at the identifier", loc=g.loc())
        else:
            R.undecided("R06-c", "flush-before-named-segment", "%s emits the named segments without flushing itself and its callers in write_for's "
                        "scope could not be enumerated" % short(g.path), loc=g.loc())
        # named branch: [add_entry(start, Some(name)), write(chunk), add_entry(end, None)] in that order
        writes = mq.calls_to(lambda p: p == V.write.path)
        if len(named) >= 2:
            first, last = named[0], named[-1]
            w_between = [w for w in writes if mq.dominates(first, w) and mq.dominates(w, last)]
            R.check("R06-c", "open-write-close", len(w_between) >= 1, "start segment, chunk, closing segment in this order",
                    "the named branch does not emit [segment, chunk, closing segment] in order", loc=g.loc())
    R.floor("R06-c", "add_entry calls in write_for", n_adds, 3)
    R.floor("R06-c", "named-branch add_entry calls", n_named, 2)
    # builtin nodes produce no segment
    wfi = inl(P, wf)
    C = Comp(P, wfi)
    pv = C.pv
    calls = add_entry_calls(P, wfi)
    ifs = [n for n in wfi.walk() if n.get("k") == "If" and has_field(pv.atoms(n["cond"]), POS, "builtin")]
    reads_builtin = any(n.get("k") == "Field" and n.get("field") == "builtin" and norm(n.get("adt")) == POS for n in wfi.walk())
    if not ifs:
        if not reads_builtin and calls:
            R.violated("R06-c", "builtin-no-segment", "write_for never reads `Pos.builtin`: builtin (position-less) nodes get a segment", loc=wf.loc())
        else:
            R.undecided("R06-c", "builtin-no-segment", "the test of `Pos.builtin` is not an `if` this rule recognises", loc=wf.loc())
    else:
        x = ifs[0]
        cond, neg = strip(x["cond"]), False
        while cond.get("k") == "Unary" and cond.get("op") == "Not":
            cond, neg = strip(cond["e"]), not neg
        if cond.get("k") not in ("Field", "Path"):
            R.undecided("R06-c", "builtin-no-segment", "the condition on `Pos.builtin` is compound", loc=wf.loc())
        else:
            bb = x.get("else") if neg else x["then"]
            in_b = [c for c in calls if bb is not None and templates_contains(bb, c)]
            after = [c for c in calls if not templates_contains(x, c)]
            leaves = bb is not None and any(y.get("k") == "Ret" for y in subnodes(bb))
            R.check("R06-c", "builtin-no-segment", not in_b and (leaves or not after), "builtin positions are written without a segment",
                    "write_for emits a segment for builtin (position-less) nodes", loc=wf.loc())
    # what add_entry is given: the component remembered as generated line/column comes from the writer's cursor, the one remembered
    # as original line/column from the node's position, the source index from the node's file (through the mapper)
    roles = entry_roles(P)
    base_of_role = segment_roles(P)
    need = [("gline", (SW, V.f_line), (SW, V.f_col)), ("gcol", (SW, V.f_col), (SW, V.f_line)),
            ("oline", (POS, "line"), (POS, "column")), ("ocol", (POS, "column"), (POS, "line"))]
    R.floor("R06-c", "add_entry call sites reachable in write_for", len(calls), 3)
    for j, c in enumerate(calls):
        bad, und = [], []
        for role, req, opp in need:
            what, base = ROLE_NAME[role], base_of_role.get(role)
            r = entry_component(C, c, roles[base]) if base in roles else None
            if r is None:
                und.append(what)
                continue
            a, precise = r
            has_req, has_opp = has_field(a, *req), has_field(a, *opp)
            if has_req and not has_opp:
                continue
            if has_opp and (precise or not has_req):
                bad.append("the %s is computed from `%s`" % (what, opp[1]))
            elif has_opp or outside_param(a):
                und.append(what)
            else:
                bad.append("the %s does not derive from `%s`" % (what, req[1]))
        if bad:
            R.violated("R06-c", "add_entry-args:%d" % j, "write_for passes add_entry its line/column arguments in the wrong positions: " + "; ".join(bad), loc=wf.loc())
        elif und:
            R.undecided("R06-c", "add_entry-args:%d" % j, "could not trace the %s handed to add_entry" % ", ".join(und), loc=wf.loc())
        else:
            R.holds("R06-c", "add_entry-args:%d" % j, "(gen line, gen column, orig line, orig column) each from its own source", loc=wf.loc())
        # the generated position of a segment is the cursor that `write` maintains (line breaks, pending indentation, UTF-16 widths),
        # read when the segment is recorded — never re-derived by arithmetic on an earlier reading or on the text
        recomputed = []
        for role in ("gline", "gcol"):
            base = base_of_role.get(role)
            r = entry_component(C, c, roles[base]) if base in roles else None
            if r is not None and r[1]:
                ar = sorted({x[1] for x in r[0] if x[0] == "op" and x[1] in ARITH} | {x[1].split("::")[-1] for x in r[0] if x[0] == "call" and x[1].split("::")[-1] in ARITH_CALLS})
                if ar:
                    recomputed.append("the %s is computed with %s" % (ROLE_NAME[role], ", ".join("`%s`" % o for o in ar)))
        if recomputed:
            R.violated("R06-c", "add_entry-cursor:%d" % j, "write_for hands add_entry a generated position that is not the writer's cursor as read at that point: "
                       + "; ".join(recomputed) + " — `write` moves the cursor by line breaks and indentation too, so a position predicted from the "
                       "text is wrong as soon as the chunk contains a newline", loc=wf.loc())
        elif not bad and not und:
            R.holds("R06-c", "add_entry-cursor:%d" % j, "generated line and column are plain reads of the cursor", loc=wf.loc())
        base = base_of_role.get("src")
        r = entry_component(C, c, roles[base]) if base in roles else None
        if r is None or (not (has_field(r[0], SW, V.f_mapper) or has_field(r[0], POS, "file")) and outside_param(r[0])):
            R.undecided("R06-c", "add_entry-source:%d" % j, "could not trace the source index handed to add_entry", loc=wf.loc())
        else:
            R.check("R06-c", "add_entry-source:%d" % j, has_field(r[0], SW, V.f_mapper) or has_field(r[0], POS, "file"),
                    "source index comes from the node's file through the mapper",
                    "write_for passes a source index not derived from the node's file", loc=wf.loc())
    names_key_rule(P, R)


INT_TYPES = {"u8", "u16", "u32", "u64", "u128", "usize", "i8", "i16", "i32", "i64", "i128", "isize"}
MAP_LOOKUPS = {"get", "get_mut", "peek", "peek_mut", "contains", "contains_key", "entry", "get_or_insert", "get_or_insert_with", "get_or_insert_mut",
               "put", "insert", "push", "remove", "pop"}


def names_key_rule(P, R):
    """The name mapper answers a repeated name from a cache without looking at the `names` table again, so the cache key has to
    identify the name: the name itself (any string type), or — if it is a fixed-width number computed from the name, which cannot
    be injective on strings — a hit has to be checked against the stored name before its index is returned."""
    V = vocab(P)
    for path in sorted(V.name_fns):
        g0 = P.fns[path]
        if not any(peel_ty(x) == "str" for x in g0.sig_inputs):
            continue
        g = inl(P, g0)
        pv = Prov(g, field_assign=False)
        nm = g0.self_adt
        names = [pv.params[p_["local"]] for p_ in g.params if p_.get("k") == "Binding" and peel_ty(p_.get("t", "")) == "str"]
        ftypes = P.adt(nm).field_types()
        maps = {f_ for f_, t in ftypes.items() if any(m in t for m in ("LruCache<", "HashMap<", "BTreeMap<", "IndexMap<", "HashSet<", "BTreeSet<"))}
        lists = {f_ for f_, t in ftypes.items() if t.startswith("alloc::vec::Vec<") and "String" in t}
        keys = []
        for x in g.walk():
            if x.get("k") == "MethodCall" and x.get("method") in MAP_LOOKUPS and x["args"]:
                r = strip(x["recv"])
                if isinstance(r, dict) and r.get("k") == "Field" and norm(r.get("adt")) == nm and r["field"] in maps:
                    keys.append(x["args"][0])
        key = "names-key:" + short(path)
        if not keys:
            R.holds("R06-c", key, "names are not cached by a key", loc=g0.loc())
            continue
        kts = {peel_ty(k_.get("t", "")) for k_ in keys}
        if all("str" in t or "String" in t for t in kts):
            ok = all(any(("param", n_) in pv.atoms(k_) for n_ in names) for k_ in keys)
            R.check("R06-c", key, ok, "the cache of recently used names is keyed by the name itself",
                    "%s looks its cache up with a string that is not the name it was given" % path, loc=g0.loc())
        elif all(t in INT_TYPES for t in kts):
            verified = [x for x in g.walk() if ((x.get("k") == "Binary" and x.get("op") in ("==", "!=")) or (x.get("k") == "MethodCall" and x.get("method") in ("eq", "ne")))
                        and any(("param", n_) in pv.atoms(x) for n_ in names) and any(has_field(pv.atoms(x), nm, l_) for l_ in lists)]
            R.check("R06-c", key, bool(verified), "a hit on the numeric key is checked against the stored name",
                    "%s de-duplicates the `names` table through a cache keyed by a `%s` computed from the name, and returns the cached index of a hit "
                    "without comparing the stored name with the one asked for: a fixed-width number cannot tell all identifiers apart, so two names "
                    "with the same key share one `names` entry and segments carry the wrong name" % (path, sorted(kts)[0]), loc=g0.loc())
        else:
            R.undecided("R06-c", key, "the name cache is keyed by `%s`; whether that identifies the name is not decided" % sorted(kts), loc=g0.loc())


ARITH = {"+", "-", "*", "/", "%", "+=", "-=", "*="}
ARITH_CALLS = {"checked_add", "saturating_add", "wrapping_add", "checked_sub", "saturating_sub", "wrapping_sub", "add", "sub"}


def segment_roles(P):
    """{role: delta base}: which counter of the mapping writer stands for which field of a segment.  Told by the counters' names
    when they use the Source Map vocabulary; otherwise by position — the k-th VLQ field add_entry emits *is* field k of a v3
    segment, and the one counter that is never VLQ-encoded (it only produces `;`) is the generated line."""
    V = vocab(P)
    if V.base_role:
        return {r: b for b, r in V.base_role.items()}
    f = inl(P, V.add_entry)
    pv = state_prov(V, f)
    qb = {}
    for b_, e_, _ in base_assigns(V, f):
        qb.setdefault(b_, set()).add(quantity(pv.atoms(e_)))
    qb = {b: list(v)[0] for b, v in qb.items() if len(v) == 1}
    order, problem = vlq_order(P, f, pv, qb)
    if problem or len(order) != 5 or any(len(o) != 1 for o in order) or len({o[0] for o in order}) != 5:
        return {}
    out = {r: o[0] for r, o in zip(ROLES, order)}
    rest = [b for b in V.bases if b not in out.values()]
    if len(rest) == 1:
        out["gline"] = rest[0]
    return out


# ---- emission skeleton seen through same-crate helpers (emit.emission cannot look into a helper)
def emission_through(fn):
    """ordered [(own, kind, literal-or-None, node)] of the SourceMapWriter calls of `fn` (an inl() copy) and of the helpers inlined
    into it; own = the call is written in fn's own body"""
    out = []

    def rec(v, own):
        if isinstance(v, list):
            for x in v:
                rec(x, own)
            return
        if not isinstance(v, dict):
            return
        for key, x in v.items():
            if key != "inl" and isinstance(x, (dict, list)):
                rec(x, own)
        if v.get("k") == "MethodCall":
            c = norm(v.get("callee") or "")
            if c.startswith(SMW):
                out.append((own, c[len(SMW):], lit_value(v["args"][0]) if v["args"] else None, v))
        if "inl" in v:
            rec(v["inl"]["body"], False)
    rec(fn.body, True)
    return out


def r06d(P, R):
    """declaration identifiers are written with write_for (a segment into the GraphQL header)"""
    decl = re.compile(r"(^|\s)(type|const|interface|namespace) $")
    scope = [f for f in P.fns.values() if f.path.startswith(("nitrogql_printer::schema_type_printer", "nitrogql_printer::resolver_type_printer",
                                                             "<nitrogql_printer::operation_type_printer", "nitrogql_printer::operation_type_printer",
                                                             "<nitrogql_printer::operation_js_printer", "nitrogql_printer::ts_types"))
             or "schema_type_printer::type_printer::TypePrinter" in f.path]
    scope = [f for f in scope if "::tests" not in f.path and not f.derived and "graphql_printer" not in f.path]
    # exceptions: declarations that do not correspond to a GraphQL definition
    EXEMPT = {
        ("nitrogql_printer::schema_type_printer::printer::SchemaTypePrinter::print_prelude", "export type "): "the __SelectionSet utility type",
    }
    n = 0
    total_own = 0
    for f in scope:
        if not any(x.get("k") == "MethodCall" and norm(x.get("callee") or "").startswith(SMW) for x in f.walk()):
            continue
        em = emission_through(inl(P, f))
        for pos, (own, kind, lit, node) in enumerate(em):
            if not own or lit is None or not decl.search(lit):
                continue
            nxt = em[pos + 1] if pos + 1 < len(em) else None
            if (f.path, lit) in EXEMPT:
                continue
            n += 1
            key = "decl:%s:%s#%d" % (short(f.path), lit.strip(), sum(1 for e in em[:pos] if e[0] and e[2] == lit))
            if nxt is None:
                # the keyword is the last thing this function writes: the identifier is written by whoever calls it
                after = []
                for h in scope:
                    if h is not f and f.path in P.callees_of(h)[0]:
                        eh = emission_through(inl(P, h))
                        after += [(h, eh[q + 1] if q + 1 < len(eh) else None) for q, e_ in enumerate(eh)
                                  if not e_[0] and e_[2] == lit and e_[3].get("s") == node.get("s")]
                if not after or any(x is None for _, x in after):
                    R.undecided("R06-d", key, "identifier after `%s` is written by a caller that could not be followed" % lit, loc=f.loc())
                    continue
                n += len(after) - 1
                bad = [h for h, x in after if not (x[1] == "write_for" and x[2] is None)]
                R.check("R06-d", key, not bad, "identifier after `%s` is written with write_for by every caller" % lit.strip(),
                        "%s writes the identifier after `%s` (emitted by %s) without write_for: the declaration carries no segment, go-to-definition no "
                        "longer lands on the GraphQL source" % (", ".join(sorted({h.path for h in bad})), lit.strip(), short(f.path)), loc=f.loc())
                continue
            ok = nxt[1] == "write_for" and nxt[2] is None
            R.check("R06-d", key, ok, "identifier after `%s` is written with write_for" % lit.strip(),
                    "%s writes the identifier after `%s` with `%s`: the declaration carries no segment, go-to-definition no longer lands on "
                    "the GraphQL source" % (f.path, lit.strip(), nxt[1]), loc=f.loc())
            if ok:
                # the node argument is an identifier-like node of the definition being printed
                t = peel_ty(nxt[3]["args"][1].get("t", ""))
                okn = any(s in t for s in ("base::Ident", "base::NamePos", "operation::FragmentDefinition", "ts_types::ObjectKey", "node::Node", "TSTypeVariable"))
                R.check("R06-d", key + ":node", okn, "mapped to %s" % t.split("::")[-1],
                        "the identifier after `%s` is mapped to a `%s`, not to the definition's name" % (lit.strip(), t), loc=f.loc())
    R.floor("R06-d", "declaration sites", n, 12)
    # object keys and type variables in ts_types go through write_for
    pt = P.fn("nitrogql_printer::ts_types::TSType::print_type")
    wf = [e for e in emission_through(inl(P, pt)) if e[1] == "write_for"]
    R.floor("R06-d", "write_for in TSType::print_type (type variables, object keys)", len(wf), 2)
    total = sum(1 for f in P.fns.values() if f.path.startswith(("nitrogql_printer::", "<nitrogql_printer::", "<nitrogql_ast::")) and "::tests" not in f.path
                for x in f.walk() if x.get("k") == "MethodCall" and norm(x.get("callee") or "") == SMW + "write_for")
    R.count("write_for_sites_in_printer", total)
    R.floor("R06-d", "write_for call sites in the printers", total, 28)


def sources_in_store_order(P):
    """`sources` is computed by one zip of the index table with the file store, filtered, without reordering"""
    w = P.fn("nitrogql_cli::generate::write_file_and_sourcemap", required=False)
    if w is None:
        return False
    wi = inl(P, w)
    CW = Comp(P, wi)
    for c in wi.walk():
        if c.get("k") == "Call" and (call_name(c) or "").endswith("print_source_map_json") and len(c["args"]) > 1:
            flow, seen, todo = [], set(), [c["args"][1]]
            while todo:
                for y in subnodes(todo.pop()):
                    flow.append(y)
                    if y.get("k") == "Path" and "local" in y and y["local"] not in seen and (y["local"] in CW.single or y["local"] in CW.patb):
                        seen.add(y["local"])
                        todo.append(CW.single[y["local"]] if y["local"] in CW.single else CW.patb[y["local"]][0])
            ms_ = [y["method"] for y in flow if y.get("k") == "MethodCall"]
            return ms_.count("zip") == 1 and not any(m in ("rev", "sorted", "sort_by", "sort", "sort_by_key", "sorted_by_key", "sort_unstable", "reverse") for m in ms_)
    return False


def output_is_measured_buffer(P, R, w, wi, pvw):
    """The mappings were measured on the SourceWriter's text buffer, line 0 column 0 being its first character: the generated file
    has to *start* with exactly that buffer.  Text written to the file before it (a banner, a header comment) moves every generated
    line while the mappings stay; what follows the buffer (the sourceMappingURL trailer) is harmless."""
    BUF = "sourcemap_writer::source_writer::SourceWriterBuffers"
    # the text field of SourceWriterBuffers, by role: the one filled from a String field of the SourceWriter itself
    text_f = set()
    for g in P.fns.values():
        if g.self_adt == SW and not g.derived:
            for n in g.walk():
                if n.get("k") == "Struct" and "rest" not in n and norm(n.get("adt", "")) == BUF:
                    for f_ in n["fields"]:
                        e_ = strip(f_["e"])
                        while isinstance(e_, dict) and e_.get("k") == "Call" and (call_name(e_) or "").endswith(("mem::take", "mem::replace")) and e_["args"]:
                            e_ = strip(e_["args"][0])
                        if isinstance(e_, dict) and e_.get("k") == "Field" and norm(e_.get("adt")) == SW and peel_ty(e_.get("t", "")) == "alloc::string::String":
                            text_f.add(f_["name"])
    text_f = text_f or {"buffer"}
    handles = {b_["local"] for n in wi.walk() if n.get("k") == "Let" and "init" in n and has_call(pvw.atoms(n["init"]), "std::fs::File::create")
               for b_ in subnodes(n["pat"]) if b_.get("k") == "Binding"}
    writes = [n for n in wi.walk() if n.get("k") == "MethodCall" and n.get("method") in ("write", "write_all", "write_fmt", "write_str")
              and any(y.get("k") == "Path" and y.get("local") in handles for y in subnodes(n["recv"]))]
    carries = [any(has_field(pvw.atoms(a_), BUF, f_) for a_ in n["args"] for f_ in text_f) for n in writes]
    if not handles or True not in carries:
        R.undecided("R06-e", "output-is-measured-buffer", "how the generated text reaches the output file was not recognised", loc=w.loc())
        return
    before = writes[:carries.index(True)]
    first = writes[carries.index(True)]
    if before:
        what = sorted({a[1] for n in before for a_ in n["args"] for a in pvw.atoms(a_) if a[0] == "param"}) or ["a constant text"]
        R.violated("R06-e", "output-is-measured-buffer", "%s writes %s to the generated file before the buffer the mappings were measured on: every "
                   "generated line moves down by the lines of that text while the mappings still count from the buffer's first line, so each segment "
                   "points above its token" % (w.name, ", ".join("`%s`" % x for x in what)), loc=w.loc())
    else:
        R.holds("R06-e", "output-is-measured-buffer", "the generated file starts with the buffer the mappings were measured on", loc=w.loc())


def r06e(P, R):
    """sources agreement: the index mapper and the `sources` list come from one FileMap; sources relative to the map's file"""
    rg0 = P.fn("nitrogql_cli::generate::run_generate")
    w = P.fn("nitrogql_cli::generate::write_file_and_sourcemap")
    fm_adt = P.adt("FileMap")
    FM = fm_adt.path
    types = fm_adt.field_types()
    stores = [f for f, t in types.items() if "FileStore" in t]
    tables = [f for f, t in types.items() if "usize" in t]
    F_STORE = stores[0] if len(stores) == 1 else "file_store"
    F_TABLE = tables[0] if len(tables) == 1 else "file_indices"
    F_PATHS = [f for f, t in types.items() if "Vec<" in t and "Path" in t]      # a FileMap may store the `sources` list itself
    # FileMap constructor functions are looked into; everything else run_generate calls is not
    rg = inl(P, rg0, _returns_filemap)
    C = Comp(P, rg)
    pv = C.pv
    nodes = rg.nodes()

    def locals_of_type(e, ty):
        return {y["local"] for y in subnodes(e) if y.get("k") == "Path" and "local" in y and ty in norm(str(y.get("t", "")))}
    setm = [c for c in rg.walk() if c.get("k") == "MethodCall" and (call_name(c) or "") == vocab(P).set_mapper.path]
    wcalls = [(i, c) for i, (c, _) in enumerate(nodes) if c.get("k") == "Call" and (call_name(c) or "") == w.path]
    R.floor("R06-e", "SourceWriter uses in run_generate", len(setm), 3)
    R.floor("R06-e", "source-mapped outputs written by run_generate", len(wcalls), 3)
    # every source-mapped output: its writer received a mapper, taken from the very FileMap that is handed to the map writer
    for j, (i, c) in enumerate(wcalls):
        bufs = [a for a in c["args"] if "SourceWriterBuffers" in norm(str(a.get("t", "")))]
        fms = set().union(*[locals_of_type(a, FM) for a in c["args"]]) if c["args"] else set()
        wl = set()
        for a in bufs:
            wl |= locals_of_type(C.resolve(a), SW)
        if not wl:
            R.undecided("R06-e", "mapper-set:%d" % j, "the SourceWriter whose buffers are written here could not be identified", loc=rg.loc())
            continue
        mine = [m for m in setm if locals_of_type(m["recv"], SW) & wl]
        # ... or the writer comes out of a function that installs the mapper before handing it out
        made = [C.single[l] for l in wl if l in C.single and isinstance(C.single[l], dict) and "inl" in strip(C.single[l])]
        inner = [m for m in setm for mk in made if templates_contains(strip(mk)["inl"], m)]
        if not mine and inner:
            R.holds("R06-e", "mapper-set:%d" % j, "the output's SourceWriter is created with its file-index mapper", loc=rg.loc())
            mk = [strip(x) for x in made]
            ml = set().union(*[locals_of_type(a_, FM) for x in mk for a_ in ([x["recv"]] if x.get("k") == "MethodCall" else []) + x["args"]])
            if not fms or not ml:
                R.undecided("R06-e", "mapper-same-filemap:%d" % j, "the FileMap behind the mapper or behind `sources` is not a plain local", loc=rg.loc())
            else:
                R.check("R06-e", "mapper-same-filemap:%d" % j, bool(ml & fms), "mapper and `sources` come from the same FileMap",
                        "the writer's index mapper is taken from another FileMap than the one `sources` is computed from", loc=rg.loc())
            continue
        if not R.check("R06-e", "mapper-set:%d" % j, bool(mine), "the output's SourceWriter received a file-index mapper",
                       "a source-mapped output is written from a SourceWriter on which %s is never called: its segments "
                       "carry raw file-store indices, not positions in `sources`" % vocab(P).set_mapper.name, loc=rg.loc()):
            continue
        ml = set().union(*[locals_of_type(m["args"][0], FM) for m in mine])
        if not fms or not ml:
            R.undecided("R06-e", "mapper-same-filemap:%d" % j, "the FileMap behind the mapper or behind `sources` is not a plain local", loc=rg.loc())
        else:
            R.check("R06-e", "mapper-same-filemap:%d" % j, bool(ml & fms), "mapper and `sources` come from the same FileMap",
                    "the writer's index mapper is taken from another FileMap than the one `sources` is computed from", loc=rg.loc())
    # FileMap literals: file_indices table
    fms = [(i, n) for i, (n, _) in enumerate(nodes) if n.get("k") == "Struct" and "rest" not in n and norm(n.get("adt", "")) == FM]
    R.floor("R06-e", "FileMap constructions", len(fms), 3)

    def mentions_schema(e):
        return any(norm(y.get("def") or y.get("ctor_of") or "").endswith("FileKind::Schema") for y in subnodes(e))

    def branch_val(e):
        e = strip(e)
        while isinstance(e, dict) and e.get("k") == "BlockExpr":
            e = strip(e["b"].get("tail") or {})
        return e
    for j, (i, fm) in enumerate(fms):
        fi = [x for x in fm["fields"] if x["name"] == F_TABLE]
        if not fi:
            R.undecided("R06-e", "index-table:%d" % j, "FileMap literal without an explicit index table field", loc=rg.loc())
            continue
        fi = C.resolve(fi[0]["e"])
        # hoisted per-item state: the table of an output written inside a loop must be computed under the loop.  A vector declared
        # outside the loop and written slot-wise inside it (directly or in a helper that gets it as `&mut`) carries the slots of
        # earlier iterations into the later tables.
        loops_here = [c_[1] for c_ in enclosing_contexts(rg, i) if c_[0] == "loop"]
        if loops_here:
            loop = loops_here[0]
            # parameters of inlined helpers stand for the caller's expression (also when the helper writes through them)
            param_arg = {}
            for n_, _ in nodes:
                if n_.get("k") in ("Call", "MethodCall") and "inl" in n_:
                    for pp, aa in zip(n_["inl"]["params"], ([n_["recv"]] if n_.get("k") == "MethodCall" else []) + n_["args"]):
                        if pp.get("k") == "Binding":
                            param_arg[pp["local"]] = aa
            used, seen_l, todo = set(), set(), [fi]
            while todo:
                for y in subnodes(todo.pop()):
                    if y.get("k") == "Path" and "local" in y and y["local"] not in seen_l:
                        seen_l.add(y["local"])
                        used.add(y["local"])
                        if y["local"] in C.single or y["local"] in param_arg:
                            todo.append(C.single.get(y["local"]) or param_arg[y["local"]])
            lets = {b_["local"]: n_ for n_, _ in nodes if n_.get("k") == "Let" for b_ in subnodes(n_["pat"]) if b_.get("k") == "Binding"}
            outer = {l_ for l_ in used if l_ in lets and not templates_contains(loop, lets[l_]) and "usize" in norm(str(lets[l_]["pat"].get("t", "")))}

            def root_local(e_):
                e_ = strip(e_)
                while isinstance(e_, dict) and e_.get("k") in ("Index", "Field"):
                    e_ = strip(e_["e"])
                while isinstance(e_, dict) and e_.get("k") == "Path" and e_.get("local") in param_arg:
                    e_ = strip(param_arg[e_["local"]])     # the variable itself, not what it was initialised with
                return e_.get("local") if isinstance(e_, dict) and e_.get("k") == "Path" else None
            writes = [(x, root_local(x["l"])) for x in subnodes(loop) if x.get("k") in ("Assign", "AssignOp") and strip(x["l"]).get("k") == "Index"]
            writes = [(x, l_) for x, l_ in writes if l_ in outer]
            if writes:
                resets = [x for x, _ in writes if is_sentinel(P, x["r"])]
                name = lets[writes[0][1]]["pat"].get("name", "?")
                if resets:
                    R.undecided("R06-e", "table-per-iteration:%d" % j, "`%s` lives across iterations and is both set and reset slot-wise inside the loop" % name, loc=rg.loc())
                else:
                    R.violated("R06-e", "table-per-iteration:%d" % j, "the index table of a per-operation output is taken from `%s`, a vector built before the loop "
                               "whose slots are overwritten inside it and never put back: the slot set for one operation file is still set in the tables "
                               "of the following ones (their maps list one file in `sources` but index several)" % name, loc=rg.loc())
                continue
        a = pv.deep_atoms(fi)
        if has_call(a, "FileStore::iter"):
            R.holds("R06-e", "filemap-same-store:%d" % j, "indices are computed by iterating the file store", loc=rg.loc())
        else:
            R.undecided("R06-e", "filemap-same-store:%d" % j, "the index table is not computed from FileStore::iter(); how it enumerates the files is not decided", loc=rg.loc())
        # another representation: the FileMap stores the `sources` list, filled in the same pass that numbers the files — a file's index
        # is the position at which its path was just pushed, so table and list agree by construction
        pushed = {strip(y["recv"]).get("local") for y in subnodes(fi) if y.get("k") == "MethodCall" and y.get("method") == "push"
                  and strip(y["recv"]).get("k") == "Path"} - {None}
        stored = {y.get("local") for x in fm["fields"] if x["name"] in F_PATHS for y in subnodes(x["e"]) if y.get("k") == "Path"}
        numbered = [y for y in subnodes(fi) if y.get("k") == "Binary" and y.get("op") == "-" and int_of(P, y["r"]) == 1
                    and strip(y["l"]).get("k") == "MethodCall" and strip(y["l"]).get("method") == "len" and strip(strip(y["l"])["recv"]).get("local") in pushed]
        if pushed & stored and numbered:
            R.holds("R06-e", "index-table:sequential:%d" % j, "a source's index is its position in the `sources` list the same pass builds", loc=rg.loc())
            continue
        # index table: Schema -> own index (schema files come first, so position == index); the operation file -> schema_len(); else
        # "not a source" (the sentinel, or None in a table of options) — written as an if/else chain or as a match on the kind
        def locals_in(es):
            return {x["local"] for e_ in es for x in subnodes(e_) if x.get("k") == "Path" and "local" in x}

        def unwrap(v):
            v = branch_val(v)
            while isinstance(v, dict) and v.get("k") == "Call" and norm(v.get("callee") or "") in OPTION_LIKE and len(v["args"]) == 1:
                v = branch_val(v["args"][0])
            return v

        def absent(v):
            return is_sentinel(P, v) or (isinstance(v, dict) and v.get("k") == "Path" and norm(v.get("def") or "").endswith("Option::None"))
        ifs = [x for x in subnodes(fi) if x.get("k") == "If" and not x.get("x")]
        kms = [x for x in subnodes(fi) if x.get("k") == "Match" and x.get("src") == "Normal" and "FileKind" in norm(str(x["scrut"].get("t", "")))]
        rows, default = [], None     # rows: (tests Schema?, locals its condition reads, value)
        if ifs:
            rows = [(mentions_schema(x["cond"]), locals_in([x["cond"]]), unwrap(x["then"])) for x in ifs]
            default = unwrap(ifs[-1]["else"]) if ifs[-1].get("else") else None
        elif len(kms) == 1:
            for arm in kms[0]["arms"]:
                sch = mentions_schema(arm["pat"])
                if "guard" in arm or sch:
                    rows.append((sch, locals_in([kms[0]["scrut"]] + ([arm["guard"]] if "guard" in arm else [])), unwrap(arm["body"])))
                else:
                    default = unwrap(arm["body"])
        else:
            R.undecided("R06-e", "index-table:%d" % j, "the index table is neither an if/else chain nor a match on the file kind", loc=rg.loc())
            continue
        def known(v):
            return absent(v) or to_schema_len(v) or (isinstance(v, dict) and v.get("k") == "Path" and "local" in v)

        def to_schema_len(v):
            v = C.resolve(v) if isinstance(v, dict) else v      # `let slot = file_store.schema_len();` hoisted out of the closure
            return isinstance(v, dict) and v.get("k") == "MethodCall" and (call_name(v) or "").endswith("FileStore::schema_len")
        # writer/reader agreement: when `sources` is the store-order sub-list of the files whose entry is not the marker, a file's index
        # is its rank in that order.  Schema files come first in the store and the one document file follows them; a table that pins
        # the document to slot schema_len() *and* gives slots to further non-schema files numbers them "after the document", which is
        # their rank only if the document happens to precede them in the store.
        own_rows = [v for sch, _, v in rows if not sch and to_schema_len(v)]
        extra = [v for sch, _, v in rows if not sch and not to_schema_len(v) and not absent(v)
                 and not (isinstance(v, dict) and v.get("k") == "Path" and "local" in v and not to_schema_len(v))]
        if own_rows and extra and sources_in_store_order(P):
            R.violated("R06-e", "index-table:order:%d" % j, "the index table pins the generated file's own document to slot schema_len() and gives further "
                       "non-schema files the slots after it, but `sources` lists the files in file-store order: when such a file precedes the document "
                       "in the store, the document's segments and that file's segments point at each other's source", loc=rg.loc())
            continue
        if not all(known(v) for _, _, v in rows) or (default is not None and default and not known(default)):
            R.undecided("R06-e", "index-table:%d" % j, "a row of the index table yields a value this rule does not read (neither an index, schema_len(), "
                        "nor the not-a-source marker)", loc=rg.loc())
            continue
        first_bindings, kind_locals = set(), set()
        for cl in subnodes(fi):
            if cl.get("k") == "Closure" and cl["params"]:
                bs = [b for b in subnodes(cl["params"][0]) if b.get("k") == "Binding"]
                if bs:
                    first_bindings.add(bs[0]["local"])
                kind_locals |= {b["local"] for b in bs if "FileKind" in norm(b.get("t", ""))}
        schema_rows = [r_ for r_ in rows if r_[0]]
        if not schema_rows or not first_bindings or not kind_locals:
            R.undecided("R06-e", "index-table:schema:%d" % j, "no row of the index table tests for FileKind::Schema in a recognised way", loc=rg.loc())
        else:
            ok_schema = any(v.get("k") == "Path" and v.get("local") in first_bindings and ls and ls <= kind_locals for _, ls, v in schema_rows)
            R.check("R06-e", "index-table:schema:%d" % j, ok_schema, "schema file k -> sources[k]",
                    "the row `kind == Schema -> idx` of the index table also admits other files or does not yield the file's own index (only "
                    "schema files, which come first in the store, may keep their own index)", loc=rg.loc())

        uses_current = any(c_[0] == "loop" for c_ in enclosing_contexts(rg, i))
        if uses_current:
            R.check("R06-e", "index-table:operation-row:%d" % j, any(to_schema_len(v) for _, _, v in rows),
                    "the operation file has its own row -> schema_len()",
                    "the operation file being generated has no row mapping it to schema_len(): it keeps its raw store index, which is past "
                    "the end of `sources` for every operation file but the first", loc=rg.loc())
        if default is None or not default:
            R.undecided("R06-e", "index-table:other:%d" % j, "the table has no final else / catch-all row", loc=rg.loc())
        else:
            R.check("R06-e", "index-table:other:%d" % j, absent(default), "files that are not sources -> not a source",
                    "other files are not mapped to the sentinel", loc=rg.loc())
        for sch, _, v in rows:
            if sch:
                continue
            R.check("R06-e", "index-table:operation:%d" % j, to_schema_len(v), "the operation file -> sources[schema_len] (first slot after the schema files)",
                    "the operation file being generated is mapped to `%s`; `sources` lists the schema files followed by this file, so its "
                    "slot is schema_len()" % (v.get("name") or call_name(v) or v.get("k")), loc=rg.loc())
    # a FileMap is never updated in place (a slot set for one output would stay set for the next), and the map used inside the
    # per-operation loop is built inside that loop
    muts = []
    for f in P.fns.values():
        if not f.path.startswith("nitrogql_cli::"):
            continue
        for x in f.walk():
            if x.get("k") in ("Assign", "AssignOp"):
                base = x["l"]
                while base.get("k") in ("Index", "Unary", "Field") and not (base.get("k") == "Field" and norm(base.get("adt", "")) == FM):
                    base = base["e"]
                if base.get("k") == "Field" and norm(base.get("adt", "")) == FM:
                    muts.append("%s:%s" % (short(f.path), base["field"]))
            elif x.get("k") == "MethodCall" and str(x["recv"].get("t", "")).startswith("&mut") and any(
                    y.get("k") == "Field" and norm(y.get("adt", "")) == FM for y in subnodes(x["recv"])):
                muts.append("%s:%s()" % (short(f.path), x["method"]))
    R.check("R06-e", "filemap-immutable", not muts, "no FileMap field is assigned or mutably borrowed after construction",
            "a FileMap is modified in place (%s): entries set for one generated file leak into the source maps of the following ones "
            "(stale `sources` entries; indices resolve to an earlier operation file)" % muts, loc=rg.loc())
    n_loop_uses = 0
    for ci, c in wcalls:
        loops = [l for l in enclosing_contexts(rg, ci) if l[0] == "loop"]
        if not loops:
            continue
        n_loop_uses += 1
        inner = loops[0][1]
        fm_locals = set().union(*[locals_of_type(a_, FM) for a_ in c["args"]])
        lets = [n for n, _ in nodes if n.get("k") == "Let" and any(b.get("k") == "Binding" and b["local"] in fm_locals for b in subnodes(n["pat"]))]
        built_here = any(norm(str(y.get("t", ""))).startswith(FM) and y.get("k") in ("Struct", "Call", "MethodCall") for a_ in c["args"] for y in subnodes(a_))
        if not lets:
            if built_here:
                R.holds("R06-e", "filemap-per-output", "the FileMap is built in the call itself")
            else:
                R.undecided("R06-e", "filemap-per-output", "the FileMap handed to the per-operation output is not a local of run_generate", loc=rg.loc())
            continue
        ok = all(templates_contains(inner, n) for n in lets)
        R.check("R06-e", "filemap-per-output", ok, "the FileMap of a per-operation output is built in the same loop iteration",
                "the FileMap used for the per-operation source maps is built outside the operation loop and shared between iterations", loc=rg.loc())
    R.floor("R06-e", "source-mapped outputs written in a loop", n_loop_uses, 1)
    # write_file_and_sourcemap: sources from file_map (filtered by sentinel, store order), map json gets the output path
    wi = inl(P, w)
    CW = Comp(P, wi)
    pvw = CW.pv
    fm_params = {pvw.params[p["local"]] for p in wi.params if p.get("k") == "Binding" and FM in norm(str(p.get("t", "")))}
    pj = [c for c in wi.walk() if c.get("k") == "Call" and (call_name(c) or "").endswith("print_source_map_json")]
    R.floor("R06-e", "print_source_map_json calls", len(pj), 1)
    targets = [c["args"][0] for c in wi.walk() if c.get("k") == "Call" and (call_name(c) or "") in ("std::fs::File::create", "std::fs::write") and c["args"]]
    for c in pj:
        a0 = pvw.atoms(c["args"][0])
        a1 = pvw.atoms(c["args"][1])
        p0 = {x for x in a0 if x[0] == "param"}
        tp = [{x for x in pvw.atoms(t) if x[0] == "param"} for t in targets]
        if not targets or not p0:
            R.undecided("R06-e", "map-file-anchor", "where the generated file is written, or which path the map is anchored at, was not recognised", loc=w.loc())
        else:
            R.check("R06-e", "map-file-anchor", len(p0) == 1 and any(p0 == t for t in tp), "`sources` are made relative to the generated file that the map sits next to",
                    "print_source_map_json is given a different path than the one the output is written to", loc=w.loc())
        stored_list = any(has_field(a1, FM, f_) for f_ in F_PATHS)
        ok = any(("param", x) in a1 for x in fm_params) and ((has_field(a1, FM, F_TABLE) and has_field(a1, FM, F_STORE)) or stored_list)
        if ok or not any(x[0] == "param" and x[1] not in fm_params for x in a1):
            R.check("R06-e", "sources-from-filemap", ok, "`sources` is derived from the same FileMap as the index mapper",
                    "`sources` is not derived from the FileMap's index table zipped with its file store", loc=w.loc())
        else:
            R.undecided("R06-e", "sources-from-filemap", "`sources` is (also) computed from another parameter of %s; where that comes from is not decided" % w.name, loc=w.loc())
        # the computation of `sources`: the expression, the locals it uses and the helpers it calls
        flow, seen, todo = [], set(), [c["args"][1]]
        while todo:
            for y in subnodes(todo.pop()):
                flow.append(y)
                if y.get("k") == "Path" and "local" in y and y["local"] not in seen and (y["local"] in CW.single or y["local"] in CW.patb):
                    seen.add(y["local"])
                    todo.append(CW.single[y["local"]] if y["local"] in CW.single else CW.patb[y["local"]][0])
        zips = [y for y in flow if y.get("k") == "MethodCall" and y["method"] == "zip"]
        bad = sorted({y["method"] for y in flow if y.get("k") == "MethodCall" and y["method"] in ("rev", "sorted", "sort_by", "sort", "skip", "take", "dedup", "unique",
                                                                                                    "sort_by_key", "sort_unstable", "reverse", "step_by")})
        if bad:
            R.violated("R06-e", "sources-order", "`sources` is reordered/truncated relative to the index table (%s)" % bad, loc=w.loc())
        elif stored_list and not zips:
            R.holds("R06-e", "sources-order", "`sources` is the list stored in the FileMap, in the order it was numbered", loc=w.loc())
        elif len(zips) != 1:
            R.undecided("R06-e", "sources-order", "`sources` is not computed by one zip of the index table with the file store", loc=w.loc())
        else:
            R.holds("R06-e", "sources-order", "`sources` keeps file-store order (indices are positions in it)", loc=w.loc())
    output_is_measured_buffer(P, R, w, wi, pvw)
    psm = P.fn("sourcemap_writer::source_writer::print_source_map_json")
    pvp = Prov(psm)
    rel = [c for c in psm.walk() if c.get("k") == "Call" and (call_name(c) or "").endswith("relative_path::relative_path")]
    srcs = [c for c in psm.walk() if c.get("k") == "MethodCall" and c["args"] and lit_value(c["args"][0]) == "sources"]
    if not rel:
        # another function of the same path-relativising family (e.g. one that takes the directory of the generated file)
        rel = [c for c in psm.walk() if c.get("k") == "Call" and "::relative_path::" in (call_name(c) or "") and len(c["args"]) == 2]
    if rel:
        ok = ("param", "file") in pvp.atoms(rel[0]["args"][0]) and ("param", "source_files") in pvp.atoms(rel[0]["args"][1])
        R.check("R06-e", "sources-relative", ok, "each source is relative_path(generated file, source file)", "sources are not relative to the generated file", loc=psm.loc())
        # both paths are compared component by component, so both have to be normalised (`..`, `.` resolved) — by the function that
        # compares them or by its caller; the generated file's path comes from the configuration as written
        g = P.fns.get(call_name(rel[0]) or "")
        if ok and g is not None and g.kind == "Fn":
            gi = inl(P, g)
            pvg = Prov(gi)
            pnames = [pvg.params.get(p_.get("local")) if p_.get("k") == "Binding" else None for p_ in gi.params]
            raw = []
            for k_, what in ((0, "the generated file's path"), (1, "the source path")):
                by_caller = has_call(pvp.atoms(rel[0]["args"][k_]), "normalize_path")
                by_callee = k_ < len(pnames) and pnames[k_] is not None and any(
                    x.get("k") == "Call" and (call_name(x) or "").endswith("normalize_path") and x["args"] and ("param", pnames[k_]) in pvg.atoms(x["args"][0])
                    for x in gi.walk())
                if not by_caller and not by_callee:
                    raw.append(what)
            normalises = any(x.get("k") == "Call" and (call_name(x) or "").endswith("normalize_path") for x in gi.walk())
            if raw and normalises:
                R.violated("R06-e", "sources-normalised", "%s is handed to %s without being normalised (neither print_source_map_json nor %s applies "
                           "normalize_path to it, while the other path is): with `..` in the configured output path the components no longer line up and "
                           "`sources` point outside the project" % (" and ".join(raw), g.name, g.name), loc=psm.loc())
            elif normalises:
                R.holds("R06-e", "sources-normalised", "both paths are normalised before they are compared", loc=psm.loc())
    elif srcs and any(("param", "source_files") in pvp.atoms(a) for c in srcs for a in c["args"][1:]):
        R.violated("R06-e", "sources-relative", "the `sources` entry is written from the source paths without relative_path: sources are not relative to "
                   "the generated file", loc=psm.loc())
    else:
        R.undecided("R06-e", "sources-relative", "where `sources` is computed was not recognised", loc=psm.loc())
    keys = {lit_value(c["args"][0]) for c in psm.walk() if c.get("k") == "MethodCall" and c["args"] and isinstance(lit_value(c["args"][0]), str)}
    required = {"version", "sources", "names", "mappings"}
    R.check("R06-e", "v3-keys", required <= keys, "Source Map v3 keys",
            "source map JSON lacks the required key(s) %s (keys written: %s)" % (sorted(required - keys), sorted(keys)), loc=psm.loc())


def r06f(P, R):
    """generated-column arithmetic is in UTF-16 code units; line/column reset on newline"""
    V = vocab(P)
    w0 = V.write
    w = inl(P, w0, _not_utf16_len)
    pv = Prov(w, field_assign=False)   # per-field precision on `self`: `self.indent` does not depend on what was added to `self.current_column`
    text = [pv.params[p["local"]] for p in w.params[1:2] if p.get("k") == "Binding"]

    def sw_field(n, name):
        return n.get("k") == "Field" and n.get("field") == name and norm(n.get("adt")) == SW

    def advances(n, name):
        f_, e = advance_of(n, SW)
        return e if f_ == name else None

    def sets(n, name, value):
        return n.get("k") == "Assign" and sw_field(n["l"], name) and str(lit_value(n["r"])).lower() == value
    incs = [advances(n, V.f_col) for n in w.walk()]
    incs = [e for e in incs if e is not None and text and ("param", text[0]) in pv.atoms(e)]
    incs = list({str(e.get("s")): e for e in incs}.values())   # a helper inlined at several call sites is one site
    R.floor("R06-f", "column increments by the written text (write and its helpers)", len(incs), 1)
    for e in incs:
        a = pv.atoms(e)
        m_ = utf16_measured(V, a)
        if m_ is True and V.utf16_len is not None and any(x[0] == "call" and x[1].split("::")[-1] in ("count", "len", "len_utf8") for x in a):
            m_ = False      # the helper is there, but something else is counted as well
        if m_ is None:
            R.undecided("R06-f", "column-units:write", "how the advance of the generated column measures the text was not recognised", loc=w.loc())
        else:
            R.check("R06-f", "column-units:write", m_, "generated column advances by the UTF-16 length of the text",
                    "SourceWriter::write advances the generated column by something other than the UTF-16 length of the text "
                    "(source map columns are UTF-16 code units): segments after a non-BMP character are misplaced", loc=w.loc())
    u = V.utf16_len
    methods = [x["method"] for x in u.walk() if x.get("k") == "MethodCall"] if u is not None else []
    if u is None:
        R.holds("R06-f", "utf16_len-def", "no separate length helper: the measuring expressions are checked where they are used")
    elif "len_utf16" in methods and "sum" in methods:
        R.holds("R06-f", "utf16_len-def", "utf16_len sums char::len_utf16", loc=u.loc())
    elif "encode_utf16" in methods and ("count" in methods or "len" in methods):
        R.holds("R06-f", "utf16_len-def", "utf16_len counts the UTF-16 code units of the text", loc=u.loc())
    elif "encode_utf16" not in methods and any(m in ("len", "count", "len_utf8") for m in methods):
        R.violated("R06-f", "utf16_len-def", "utf16_len is not the sum of len_utf16 over chars (it measures with %s)"
                   % sorted(m for m in methods if m in ("len", "count", "len_utf8")), loc=u.loc())
    else:
        R.undecided("R06-f", "utf16_len-def", "utf16_len is not written as a sum of char::len_utf16; its definition is not decided", loc=u.loc())
    # newline: line += 1, column = 0, indent flag set — in write or a helper it calls
    found = {"the line is advanced": any(advances(n, V.f_line) is not None for n in w.walk()),
             "the column is reset (assigned, not only advanced)": any(n.get("k") == "Assign" and sw_field(n["l"], V.f_col) and advances(n, V.f_col) is None
                                                                      for n in w.walk()),
             "indentation is deferred": any(sets(n, V.f_flag, "true") for n in w.walk())}
    missing = sorted(k for k, v in found.items() if not v)
    R.check("R06-f", "newline-resets", not missing, "a newline advances the line, resets the column and defers indentation",
            "neither write nor a helper it calls does this on a newline: %s" % "; ".join(missing), loc=w.loc())
    fl = V.flush
    pvf = Prov(fl)
    inc = [e for e in (advances(n, V.f_col) for n in fl.walk()) if e is not None]
    if len(inc) != 1:
        R.undecided("R06-f", "indent-column", "%s advances the column at %d places" % (fl.name, len(inc)), loc=fl.loc())
    else:
        R.check("R06-f", "indent-column", has_field(pvf.atoms(inc[0]), SW, V.f_indent), "flushing indentation advances the column by the indent width",
                "%s does not advance the column by `%s`" % (fl.name, V.f_indent), loc=fl.loc())
    # closing segment: original column + utf16_len(name)
    wf = V.write_for
    wfi = inl(P, wf)
    C = Comp(P, wfi)
    role = entry_roles(P).get(segment_roles(P).get("ocol"))
    cols = [entry_component(C, c, role) for c in add_entry_calls(P, wfi)] if role else []
    if not cols or any(r is None for r in cols):
        R.undecided("R06-f", "closing-segment-units", "the original column handed to add_entry could not be traced at every call", loc=wf.loc())
    else:
        # the closing segment is the one whose column adds something the others do not (a helper may add a constant 0 for them)
        common = set.intersection(*[set(r[0]) for r in cols])
        closing = [r for r in cols if ("op", "+") in r[0] and (len(cols) == 1 or any(a[0] not in ("lit", "op") for a in set(r[0]) - common))]
        if len(closing) == 1:
            m_ = utf16_measured(V, closing[0][0])
            if m_ is None:
                R.undecided("R06-f", "closing-segment-units", "how the range-closing segment measures the name was not recognised", loc=wf.loc())
            else:
                R.check("R06-f", "closing-segment-units", m_, "range-closing segment = original column + utf16_len(name)",
                        "the range-closing segment is not `original column + utf16_len(name)`: the name is measured in chars or bytes, not in "
                        "UTF-16 code units", loc=wf.loc())
        elif not closing and len(cols) >= 2 and all(r[1] for r in cols):
            R.violated("R06-f", "closing-segment-units", "no segment of write_for adds the length of the name to the original column: the range-closing "
                       "segment is not `original column + utf16_len(name)`", loc=wf.loc())
        else:
            R.undecided("R06-f", "closing-segment-units", "%d segments add something to the original column" % len(closing), loc=wf.loc())
    # VLQ sign/continuation constants (literals or named constants): 4 value bits + sign in the first digit, 5 in the others
    b = V.vlq_core
    masks, shifts, lshifts, ints = [], [], [], set()
    for x in b.walk():
        v = int_of(P, x) if x.get("k") in ("Lit", "Path") else None
        if v is not None:
            ints.add(v)
        if x.get("k") in ("Binary", "AssignOp"):
            op = (x.get("op") or "").rstrip("=") if x.get("k") == "AssignOp" else x.get("op")
            lv, rv = int_of(P, x["l"]), int_of(P, x["r"])
            if op == "&" and (lv is not None or rv is not None):
                masks.append(rv if rv is not None else lv)
            elif op == ">>" and rv is not None:
                shifts.append(rv)
            elif op == "<<" and rv is not None:
                lshifts.append(rv)
    if len(masks) < 2 or len(shifts) < 2:
        R.undecided("R06-f", "vlq-constants", "%s does not slice the value with two `&` masks and two `>>` shifts (masks=%s, shifts=%s)" % (b.name, masks, shifts), loc=b.loc())
    else:
        ok = {15, 31} <= set(masks) and {4, 5} <= set(shifts) and (32 in ints or 5 in lshifts) and (1 in lshifts or 2 in ints)
        R.check("R06-f", "vlq-constants", ok, "VLQ uses 4+5-bit groups, sign in bit 0, continuation bit 32",
                "%s slices the value with masks %s and shifts %s (continuation bit present: %s); Base64 VLQ needs masks 15 and 31 with shifts 4 and "
                "5, the sign in bit 0 and continuation bit 32" % (b.name, sorted(masks), sorted(shifts), 32 in ints), loc=b.loc())
    # continuation digits: inside the digit loop, the 5-bit group is read before the shift, and a digit carries the continuation bit
    # exactly when something remains after its group.  Two spellings: the bit is *selected* by a test in the iteration that reads the
    # group, or the digit is *carried* to the next iteration / the loop exit and the bit is implied by staying in the loop.
    nodes = b.nodes()
    loops = [i for i, (x, _) in enumerate(nodes) if x.get("k") == "Loop"]
    R.floor("R06-f", "VLQ digit loop", len(loops), 1)
    INVERT = {">": "<=", ">=": "<", "<": ">=", "<=": ">", "==": "!=", "!=": "=="}
    remainder_positive = {("var", ">", 0), ("var", "!=", 0), ("var", ">=", 1)}

    def ints_in(e):
        return {int_of(P, y) for y in subnodes(e or {}) if y.get("k") in ("Lit", "Path", "Binary")} - {None}

    def test_form(cond, var):
        cond = strip(cond)
        if cond.get("k") != "Binary":
            return None
        lhs, rhs, op = strip(cond["l"]), cond["r"], cond.get("op")
        n = int_of(P, rhs)
        if n is None:
            return None
        if lhs.get("k") == "Path" and lhs.get("local") == var:
            return ("var", op, n)
        if lhs.get("k") == "Binary" and lhs.get("op") == ">>" and strip(lhs["l"]).get("local") == var and int_of(P, lhs["r"]) == 5:
            return ("shifted", op, n)
        return None
    for li in loops:
        loop = nodes[li][0]
        inside = [(i, x) for i, (x, _) in enumerate(nodes) if i > li and templates_contains(loop, x)]
        shifts = [(i, x) for i, x in inside if x.get("k") == "AssignOp" and x.get("op") == ">>=" and int_of(P, x["r"]) == 5]
        masks = [(i, x) for i, x in inside if x.get("k") == "Binary" and x.get("op") == "&" and 31 in (int_of(P, x["r"]), int_of(P, x["l"]))]
        conts = [(i, x) for i, x in inside if x.get("k") == "If" and not x.get("x") and 32 in (ints_in(x.get("then")) | ints_in(x.get("else")))
                 and ("else" not in x or 0 in (ints_in(x.get("then")) | ints_in(x.get("else"))))]
        ors = [(i, x) for i, x in inside if ((x.get("k") == "Binary" and x.get("op") == "|") or (x.get("k") == "AssignOp" and x.get("op") == "|="))
               and 32 in (int_of(P, x["r"]), int_of(P, x["l"]))]
        exits = [(i, x) for i, x in inside if x.get("k") == "If"
                 and any(y.get("k") in ("Break", "Ret") for br in (x.get("then"), x.get("else")) if br for y in subnodes(br) if not templates_contains_loop(br, y))]
        if len(shifts) != 1 or len(masks) != 1:
            R.undecided("R06-f", "vlq-continuation", "digit loop not in a recognised shape (shifts=%d, masks=%d)" % (len(shifts), len(masks)), loc=b.loc())
            continue
        (si, sh), (mi, ma) = shifts[0], masks[0]
        var = sh["l"].get("local")
        # is the group read into a variable that lives across iterations (`digit = rest & 31;` — the digit emitted in an iteration is
        # the one read in the previous one) or into a binding of this iteration (`let d = value & 31`)?
        carried = any(p_.get("k") == "Assign" and strip(p_["l"]).get("k") == "Path" for p_ in b.parents_of(mi)[:2])
        if len(conts) == 1 and carried:
            ci, co = conts[0]
            form = test_form(co["cond"], var)
            if form is not None and 32 not in ints_in(co.get("then")):
                form = (form[0], INVERT.get(form[1], form[1]), form[2])
            if form is None or form[0] != "var" or ci > mi:
                R.undecided("R06-f", "vlq-continuation", "the continuation test of the carried digit is not a comparison of the remaining value made before "
                            "the next group is read", loc=b.loc())
            else:
                R.check("R06-f", "vlq-continuation", form in remainder_positive, "a digit gets the continuation bit <=> a non-zero remainder is left when it is emitted",
                        "the carried digit gets its continuation bit while `rest %s %d`, although what is left after it is exactly `rest`: for some "
                        "values the last digit carries a dangling continuation bit, or a following digit is not announced" % (form[1], form[2]), loc=b.loc())
        elif len(conts) == 1:
            ci, co = conts[0]
            form = test_form(co["cond"], var)
            if form is not None and 32 not in ints_in(co.get("then")):
                form = (form[0], INVERT.get(form[1], form[1]), form[2])   # the bit is set in the else branch
            after = ci > si
            if form is None:
                R.undecided("R06-f", "vlq-continuation", "continuation test is not a comparison of the remaining value with a constant", loc=b.loc())
            else:
                ok = (form in remainder_positive) if (after or form[0] == "shifted") else form in {("var", ">", 31), ("var", ">=", 32)}
                if form[0] == "shifted" and after:
                    ok = False
                R.check("R06-f", "vlq-continuation", ok, "continuation bit <=> a non-zero remainder follows this 5-bit group",
                        "the continuation bit of a VLQ digit is decided by `%s %s %d` evaluated %s the 5-bit shift: for some values a digit is "
                        "written without its continuation bit although another digit follows (or vice versa), so the field decodes as two"
                        % ("value" if form[0] == "var" else "value >> 5", form[1], form[2], "after" if after else "before"), loc=b.loc())
        elif not conts and len(ors) == 1 and ors[0][0] < mi and len(exits) == 1:
            # carried digit: [emit digit|32; digit = rest & 31; rest >>= 5] while something remains; the last digit is emitted bare
            ei, ex = exits[0]
            form = test_form(ex["cond"], var)
            leaves_in_then = any(y.get("k") in ("Break", "Ret") for y in subnodes(ex["then"]) if not templates_contains_loop(ex["then"], y))
            if form is not None and leaves_in_then:
                form = (form[0], INVERT.get(form[1], form[1]), form[2])   # the test is the exit condition
            if form is None or form[0] != "var" or ei > mi:
                R.undecided("R06-f", "vlq-continuation", "the loop that carries the digit is not guarded by a comparison of the remaining value", loc=b.loc())
            else:
                R.check("R06-f", "vlq-continuation", form in remainder_positive, "a digit gets the continuation bit <=> a non-zero remainder is left when it is emitted",
                        "the digit loop emits a digit with its continuation bit while `rest %s %d` (tested before the next group is read): for some "
                        "values the last digit carries a dangling continuation bit, or remaining bits are dropped" % (form[1], form[2]), loc=b.loc())
        else:
            R.undecided("R06-f", "vlq-continuation", "digit loop not in a recognised shape (continuation tests=%d, `| 32` sites=%d, exit tests=%d)"
                        % (len(conts), len(ors), len(exits)), loc=b.loc())
            continue
        R.check("R06-f", "vlq-group-before-shift", mi < si, "the digit's 5 bits are read before the value is shifted",
                "the 5-bit group is read after the shift: the digit carries the next group's bits", loc=b.loc())
    # the digit alphabet: the table the encoder indexes (found by use, whatever its name or element type)
    tabs = {}
    for x in b.walk():
        t = digit_table(P, x)
        if t:
            tabs[t[1].path] = t
    if len(tabs) == 1:
        chars, c = list(tabs.values())[0]
        R.check("R06-f", "base64-alphabet", chars == "ABCDEFGHIJKLMNOPQRSTUVWXYZabcdefghijklmnopqrstuvwxyz0123456789+/",
                "standard base64 alphabet in order", "base64 alphabet table is `%s`" % chars, loc=c.loc())
    else:
        R.undecided("R06-f", "base64-alphabet", "kind=anchor-missing: the VLQ encoder does not index exactly one constant table of 64 digits (%d found)" % len(tabs))


def templates_contains_loop(root, node):
    """is `node` inside a loop nested in `root` (its break would leave that inner loop, not the one under analysis)"""
    return any(y.get("k") == "Loop" and templates_contains(y, node) for y in subnodes(root) if y is not root)


RULES = [("R06-a", r06a), ("R06-b", r06b), ("R06-c", r06c), ("R06-d", r06d), ("R06-e", r06e), ("R06-f", r06f)]
EXPLANATION = (
    "Structural necessary conditions of source-map validity: (R06-a) every last_* delta base of MappingWriter::add_entry is "
    "subtracted from and updated with the same input quantity, on the same paths, and the VLQ fields are emitted in v3 order; (R06-b) "
    "the usize::MAX sentinel generate.rs puts in the file-index table is filtered by every consumer (today write_for does not: "
    "known finding); (R06-c) in the named branch of write_for, flush_pending_indent dominates add_entry, the order is [segment, "
    "chunk, closing segment], builtin nodes emit no segment and the components add_entry remembers as generated line/column, original "
    "line/column and source come from the cursor, the node position and the file mapper respectively (whatever the packaging of the "
    "arguments); (R06-d) at every declaration site of the schema/resolver/operation printers the identifier after `type `/`const ` "
    "is written by write_for on an identifier-like node; (R06-e) the index mapper and `sources` come from the same FileMap with "
    "the table schema k -> k, current operation file -> schema_len(), others -> sentinel, `sources` keeps store order and is "
    "relative to the generated file; (R06-f) generated columns advance by utf16_len, newline/indent bookkeeping, closing segment "
    "units, VLQ constants and alphabet. Not decided: decode validity of emitted maps, token starts, VLQ round trip.")
ASSUMPTIONS = ["json_writer, lru (third-party)", "relative_path correctness is C20 (not claimed)"]


def main(tier):
    return harness.run_property("C06", RULES, "other", EXPLANATION, ASSUMPTIONS, tier)
