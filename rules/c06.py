"""C06 — Emitted source maps are valid and point at the defining GraphQL tokens (structural clauses)."""
import re
import harness
from facts import norm, call_name, short, subnodes, lit_value, field_reads, peel_ty
from prov import Prov, has_field, has_call
from mirq import MirQ
from emit import emission
from templates import enclosing_contexts, _contains as templates_contains

SW = "sourcemap_writer::source_writer::SourceWriter"
MW = "sourcemap_writer::source_writer::mapping_writer::MappingWriter"
SMW_WRITE_FOR = "<" + SW + " as sourcemap_writer::writer::SourceMapWriter>::write_for"
SMW_WRITE = "<" + SW + " as sourcemap_writer::writer::SourceMapWriter>::write"
USIZE_MAX = "<usize>::MAX"


def cond_ctx(fn, idx):
    return tuple(id(c[1]) for c in enclosing_contexts(fn, idx) if c[0] in ("if-then", "if-else", "arm"))


def r06a(P, R):
    """delta-base discipline in MappingWriter::add_entry"""
    f = P.fn(MW + "::add_entry")
    pv = Prov(f, field_assign=False)
    acc = f.nodes()
    deltas = {}   # last field -> (param name, ctx)
    for i, (n, _) in enumerate(acc):
        if n.get("k") == "Binary" and n.get("op") in ("-", "!="):
            rf = [x for x in subnodes(n["r"]) if x.get("k") == "Field" and norm(x.get("adt")) == MW and x["field"].startswith("last_")]
            lf = [x for x in subnodes(n["l"]) if x.get("k") == "Field" and norm(x.get("adt")) == MW and x["field"].startswith("last_")]
            if n.get("op") == "-" and rf:
                params = {a[1] for a in pv.atoms(n["l"]) if a[0] == "param"}
                deltas.setdefault(rf[0]["field"], []).append((params, cond_ctx(f, i), "-"))
            elif n.get("op") == "!=" and (lf or rf):
                fld = (lf or rf)[0]["field"]
                other = n["r"] if lf else n["l"]
                params = {a[1] for a in pv.atoms(other) if a[0] == "param"}
                deltas.setdefault(fld, []).append((params, cond_ctx(f, i), "!="))
    assigns = {}
    for i, (n, _) in enumerate(acc):
        if n.get("k") == "Assign" and n["l"].get("k") == "Field" and norm(n["l"].get("adt")) == MW and n["l"]["field"].startswith("last_"):
            params = {a[1] for a in pv.atoms(n["r"]) if a[0] == "param"}
            assigns.setdefault(n["l"]["field"], []).append((params, cond_ctx(f, i)))
    adt = P.adt(MW)
    bases = [x for x in adt.fields() if x.startswith("last_")]
    R.floor("R06-a", "delta bases (last_* fields)", len(bases), 6)
    for b in bases:
        ds = [d for d in deltas.get(b, []) if d[2] == "-"]
        asg = assigns.get(b, [])
        if not ds and not deltas.get(b):
            R.violated("R06-a", b + ":used", "delta base `%s` is never subtracted from a parameter" % b, loc=f.loc())
            continue
        p_delta = set().union(*[d[0] for d in deltas.get(b, [])])
        if len(asg) != 1:
            R.violated("R06-a", b + ":updated", "delta base `%s` is assigned %d time(s) in add_entry (expected exactly one update): every later "
                       "segment's delta is taken from a stale value" % (b, len(asg)), loc=f.loc())
            continue
        p_asg, ctx_asg = asg[0]
        R.check("R06-a", b + ":same-quantity", len(p_delta) == 1 and p_asg == p_delta,
                "`%s` is the previous value of `%s`" % (b, sorted(p_delta)[0] if p_delta else "?"),
                "`%s` is subtracted from %s but updated from %s" % (b, sorted(p_delta), sorted(p_asg)), loc=f.loc())
        # update happens on every path on which the delta was emitted
        ctxs = [d[1] for d in ds] or [()]
        ok = all(ctx_asg == c[:len(ctx_asg)] for c in ctxs) and (ctx_asg == () or any(c == ctx_asg for c in ctxs))
        R.check("R06-a", b + ":updated-on-emission-paths", ok, "updated on every path that emits its delta",
                "`%s` is updated under a different condition than the one under which its delta is emitted" % b, loc=f.loc())
    # field order of a segment: generated column, source, original line, original column[, name]
    pushes = []
    for n in f.walk():
        if n.get("k") == "MethodCall" and n["method"] == "push_str" and any((call_name(x) or "").endswith("base64_vlq") for x in subnodes(n)):
            a = pv.atoms(n["args"][0])
            pushes.append(sorted(x[1] for x in a if x[0] == "param" and x[1] != "self"))
    order = [p[0] if len(p) == 1 else "|".join(p) for p in pushes]
    want = ["generated_column", "generated_column", "source_file_index", "original_line", "original_column", "name_index"]
    R.check("R06-a", "segment-field-order", order == want, "segment fields are emitted in Source Map v3 order",
            "segment fields are emitted as %s, Source Map v3 requires [column, source, line, column, name]" % order, loc=f.loc())
    # one VLQ per field goes through base64_vlq
    R.floor("R06-a", "VLQ emissions", len(pushes), 6)


def r06b(P, R):
    """sentinel guard: usize::MAX placed in file_indices must not reach add_entry"""
    rg = P.fn("nitrogql_cli::generate::run_generate")
    produces = [n for n in rg.walk() if n.get("k") == "Path" and norm(n.get("def", "")) == USIZE_MAX]
    wf = P.fn(SMW_WRITE_FOR)
    guards = [n for n in wf.walk() if n.get("k") == "Path" and norm(n.get("def", "")) == USIZE_MAX]
    idx_reads = [n for n in wf.walk() if n.get("k") == "Index" and has_field(Prov(wf).atoms(n["e"]), SW, "file_index_mapper")]
    R.floor("R06-b", "file-index lookups in write_for", len(idx_reads), 1)
    if produces:
        R.check("R06-b", "sentinel-reaches-add_entry", bool(guards),
                "write_for filters the `usize::MAX` sentinel",
                "generate.rs marks files that are not sources of the current output with usize::MAX, and SourceWriter::write_for hands "
                "`file_index_mapper[pos.file]` to add_entry without testing for it: a node from such a file (a fragment imported from "
                "another operation file) gets source index usize::MAX as isize = -1", loc=wf.loc(),
                detail={"sentinel_sites": len(produces)})
    else:
        R.holds("R06-b", "sentinel-reaches-add_entry", "no sentinel is produced")
    # the consumer that builds `sources` filters the same sentinel
    w = P.fn("nitrogql_cli::generate::write_file_and_sourcemap")
    g = [n for n in w.walk() if n.get("k") == "Path" and norm(n.get("def", "")) == USIZE_MAX]
    R.check("R06-b", "sources-filter-sentinel", bool(g), "`sources` lists exactly the files whose index is not the sentinel",
            "write_file_and_sourcemap no longer filters the sentinel when building `sources`", loc=w.loc())


def r06c(P, R):
    wf = P.fn(SMW_WRITE_FOR)
    mq = MirQ(P.mir[wf.path])
    flush = mq.calls_to(lambda p: p == SW + "::flush_pending_indent")
    adds = mq.calls_to(lambda p: p == MW + "::add_entry")
    maps = mq.calls_to(lambda p: p.endswith("NameMapper::map_name"))
    R.floor("R06-c", "add_entry calls in write_for", len(adds), 3)
    named = [a for a in adds if any(mq.dominates(m, a) for m in maps)]
    R.floor("R06-c", "named-branch add_entry calls", len(named), 2)
    ok = bool(flush) and all(any(mq.dominates(fl, a) for fl in flush) for a in named)
    R.check("R06-c", "flush-before-named-segment", ok, "pending indentation is flushed before the generated column of a named segment is read",
            "in the named-node branch of write_for, add_entry is not dominated by flush_pending_indent: the segment points into the "
            "indentation instead of at the identifier", loc=wf.loc())
    # named branch: [add_entry(start, Some(name)), write(chunk), add_entry(end, None)] in that order
    writes = mq.calls_to(lambda p: p == SMW_WRITE)
    if len(named) >= 2:
        first, last = named[0], named[-1]
        w_between = [w for w in writes if mq.dominates(first, w) and mq.dominates(w, last)]
        R.check("R06-c", "open-write-close", len(w_between) >= 1, "start segment, chunk, closing segment in this order",
                "the named branch does not emit [segment, chunk, closing segment] in order", loc=wf.loc())
    # builtin nodes produce no segment
    pv = Prov(wf)
    ifs = [n for n in wf.walk() if n.get("k") == "If" and has_field(pv.atoms(n["cond"]), "nitrogql_ast::base::Pos", "builtin")]
    ok = bool(ifs) and any(x.get("k") == "Ret" for x in subnodes(ifs[0]["then"])) and not any((call_name(x) or "").endswith("add_entry") for x in subnodes(ifs[0]["then"]))
    R.check("R06-c", "builtin-no-segment", ok, "builtin positions are written without a segment",
            "write_for emits a segment for builtin (position-less) nodes", loc=wf.loc())
    # add_entry arguments: (current_line, current_column, pos.line, pos.column[+len(name)], file_index, name)
    calls = [c for c in wf.walk() if c.get("k") == "MethodCall" and (call_name(c) or "") == MW + "::add_entry"]
    for j, c in enumerate(calls):
        a = [pv.atoms(x) for x in c["args"]]
        ok = has_field(a[0], SW, "current_line") and has_field(a[1], SW, "current_column") and has_field(a[2], "nitrogql_ast::base::Pos", "line") \
            and has_field(a[3], "nitrogql_ast::base::Pos", "column") and not has_field(a[2], "nitrogql_ast::base::Pos", "column") \
            and not has_field(a[3], "nitrogql_ast::base::Pos", "line") and not has_field(a[0], SW, "current_column") and not has_field(a[1], SW, "current_line")
        R.check("R06-c", "add_entry-args:%d" % j, ok, "(gen line, gen column, orig line, orig column) in order",
                "write_for passes add_entry its line/column arguments in the wrong positions", loc=wf.loc())
        ok = has_field(a[4], SW, "file_index_mapper") or has_field(a[4], "nitrogql_ast::base::Pos", "file")
        R.check("R06-c", "add_entry-source:%d" % j, ok, "source index comes from the node's file through the mapper",
                "write_for passes a source index not derived from the node's file", loc=wf.loc())


def r06d(P, R):
    """declaration identifiers are written with write_for (a segment into the GraphQL header)"""
    decl = re.compile(r"(^|\s)(type|const|interface|namespace) $")
    scope = [f for f in P.fns.values() if f.path.startswith(("nitrogql_printer::schema_type_printer", "nitrogql_printer::resolver_type_printer",
                                                             "<nitrogql_printer::operation_type_printer", "nitrogql_printer::operation_type_printer",
                                                             "<nitrogql_printer::operation_js_printer", "nitrogql_printer::ts_types"))
             or "schema_type_printer::type_printer::TypePrinter" in f.path]
    scope = [f for f in scope if "::tests" not in f.path and not f.derived and "graphql_printer" not in f.path]
    # exceptions: declarations that do not correspond to a GraphQL definition
    EXEMPT = {
        ("nitrogql_printer::schema_type_printer::printer::SchemaTypePrinter::print_prelude", "export type "): "the __SelectionSet utility type",
    }
    n = 0
    for f in scope:
        em = emission(f)
        for pos, (i, kind, lit, node) in enumerate(em):
            if lit is None or not decl.search(lit):
                continue
            nxt = em[pos + 1] if pos + 1 < len(em) else None
            if (f.path, lit) in EXEMPT:
                continue
            n += 1
            key = "decl:%s:%s#%d" % (short(f.path), lit.strip(), sum(1 for e in em[:pos] if e[2] == lit))
            if nxt is None:
                R.undecided("R06-d", key, "identifier after `%s` is written by a callee" % lit, loc=f.loc())
                continue
            ok = nxt[1] == "write_for" and nxt[2] is None
            R.check("R06-d", key, ok, "identifier after `%s` is written with write_for" % lit.strip(),
                    "%s writes the identifier after `%s` with `%s`: the declaration carries no segment, go-to-definition no longer lands on "
                    "the GraphQL source" % (f.path, lit.strip(), nxt[1]), loc=f.loc())
            if ok:
                # the node argument is an identifier-like node of the definition being printed
                t = peel_ty(nxt[3]["args"][1].get("t", ""))
                okn = any(s in t for s in ("base::Ident", "base::NamePos", "operation::FragmentDefinition", "ts_types::ObjectKey", "node::Node", "TSTypeVariable"))
                R.check("R06-d", key + ":node", okn, "mapped to %s" % t.split("::")[-1],
                        "the identifier after `%s` is mapped to a `%s`, not to the definition's name" % (lit.strip(), t), loc=f.loc())
    R.floor("R06-d", "declaration sites", n, 12)
    # object keys and type variables in ts_types go through write_for
    pt = P.fn("nitrogql_printer::ts_types::TSType::print_type")
    wf = [e for e in emission(pt) if e[1] == "write_for"]
    R.floor("R06-d", "write_for in TSType::print_type (type variables, object keys)", len(wf), 2)
    total = sum(1 for f in P.fns.values() if f.path.startswith(("nitrogql_printer::", "<nitrogql_printer::", "<nitrogql_ast::")) and "::tests" not in f.path
                for e in emission(f) if e[1] == "write_for")
    R.count("write_for_sites_in_printer", total)
    R.floor("R06-d", "write_for call sites in the printers", total, 28)


def r06e(P, R):
    """sources agreement: the index mapper and the `sources` list come from one FileMap; sources relative to the map's file"""
    rg = P.fn("nitrogql_cli::generate::run_generate")
    pv = Prov(rg)
    setm = [c for c in rg.walk() if c.get("k") == "MethodCall" and (call_name(c) or "") == SW + "::set_file_index_mapper"]
    wcalls = [c for c in rg.walk() if c.get("k") == "Call" and (call_name(c) or "").endswith("generate::write_file_and_sourcemap")]
    R.floor("R06-e", "SourceWriter uses in run_generate", len(setm), 3)
    R.check("R06-e", "mapper-count", len(setm) == len(wcalls), "each source-mapped output sets a mapper and writes its map",
            "%d mappers vs %d map writes" % (len(setm), len(wcalls)), loc=rg.loc())
    # FileMap literals: file_indices table
    fms = [(i, n) for i, (n, _) in enumerate(rg.nodes()) if n.get("k") == "Struct" and "rest" not in n and norm(n.get("adt", "")).endswith("generate::FileMap")]
    R.floor("R06-e", "FileMap constructions", len(fms), 3)
    for j, (i, fm) in enumerate(fms):
        fi = [x for x in fm["fields"] if x["name"] == "file_indices"][0]["e"]
        fs = [x for x in fm["fields"] if x["name"] == "file_store"][0]["e"]
        a = pv.atoms(fi)
        R.check("R06-e", "filemap-same-store:%d" % j, has_call(a, "FileStore::iter") and pv.atoms(fs) <= a | pv.atoms(fs),
                "indices are computed by iterating the same file store", "file_indices is not computed from file_store.iter()", loc=rg.loc())
        # index table: Schema -> own index (schema files come first, so position == index); the operation file -> schema_len(); else sentinel
        ifs = [x for x in subnodes(fi) if x.get("k") == "If"]
        rows = []

        def branch_val(e):
            while e.get("k") == "BlockExpr":
                e = e["b"].get("tail") or {}
            return e
        for x in ifs:
            cond_atoms = pv.atoms(x["cond"])
            v = branch_val(x["then"])
            rows.append((cond_atoms, v))
        last_else = None
        if ifs:
            e = ifs[-1].get("else")
            last_else = branch_val(e) if e else None
        first_bindings = set()
        for cl in subnodes(fi):
            if cl.get("k") == "Closure" and cl["params"]:
                bs = [b for b in subnodes(cl["params"][0]) if b.get("k") == "Binding"]
                if bs:
                    first_bindings.add(bs[0]["local"])
        kind_locals = set()
        for cl in subnodes(fi):
            if cl.get("k") == "Closure" and cl["params"]:
                for b in subnodes(cl["params"][0]):
                    if b.get("k") == "Binding" and "FileKind" in norm(b.get("t", "")):
                        kind_locals.add(b["name"])

        def cond_locals(ifn):
            return {x.get("name") for x in subnodes(ifn["cond"]) if x.get("k") == "Path" and "local" in x}
        ok_schema = any(any(a_[0] == "def" and a_[1].endswith("FileKind::Schema") for a_ in c) and v.get("k") == "Path" and v.get("local") in first_bindings
                        and cond_locals(ifn) <= kind_locals and cond_locals(ifn) for (c, v), ifn in zip(rows, ifs))
        R.check("R06-e", "index-table:schema:%d" % j, ok_schema, "schema file k -> sources[k]",
                "the row `kind == Schema -> idx` of the index table is missing or its condition also admits other files (only schema "
                "files, which come first in the store, may keep their own index)", loc=rg.loc())
        uses_current = any(c_[0] == "loop" for c_ in enclosing_contexts(rg, i))
        if uses_current:
            R.check("R06-e", "index-table:operation-row:%d" % j, any((call_name(v) or "").endswith("FileStore::schema_len") for c, v in rows),
                    "the operation file has its own row -> schema_len()",
                    "the operation file being generated has no row mapping it to schema_len(): it keeps its raw store index, which is past "
                    "the end of `sources` for every operation file but the first", loc=rg.loc())
        ok_else = last_else is not None and last_else.get("k") == "Path" and norm(last_else.get("def", "")) == USIZE_MAX
        R.check("R06-e", "index-table:other:%d" % j, ok_else, "files that are not sources -> sentinel", "other files are not mapped to the sentinel", loc=rg.loc())
        op_rows = [(c, v) for c, v in rows if not any(a_[0] == "def" and a_[1].endswith("FileKind::Schema") for a_ in c)]
        for c, v in op_rows:
            ok = v.get("k") == "MethodCall" and (call_name(v) or "").endswith("FileStore::schema_len")
            R.check("R06-e", "index-table:operation:%d" % j, ok, "the operation file -> sources[schema_len] (first slot after the schema files)",
                    "the operation file being generated is mapped to `%s`; `sources` lists the schema files followed by this file, so its "
                    "slot is schema_len()" % (v.get("name") or call_name(v) or v.get("k")), loc=rg.loc())
    # a FileMap is never updated in place (a slot set for one output would stay set for the next), and the map used inside the
    # per-operation loop is built inside that loop
    FM = "nitrogql_cli::generate::FileMap"
    muts = []
    for f in P.fns.values():
        if not f.path.startswith("nitrogql_cli::"):
            continue
        for x in f.walk():
            if x.get("k") in ("Assign", "AssignOp"):
                base = x["l"]
                while base.get("k") in ("Index", "Unary", "Field") and not (base.get("k") == "Field" and norm(base.get("adt", "")) == FM):
                    base = base["e"]
                if base.get("k") == "Field" and norm(base.get("adt", "")) == FM:
                    muts.append("%s:%s" % (short(f.path), base["field"]))
            elif x.get("k") == "MethodCall" and str(x["recv"].get("t", "")).startswith("&mut") and any(
                    y.get("k") == "Field" and norm(y.get("adt", "")) == FM for y in subnodes(x["recv"])):
                muts.append("%s:%s()" % (short(f.path), x["method"]))
    R.check("R06-e", "filemap-immutable", not muts, "no FileMap field is assigned or mutably borrowed after construction",
            "a FileMap is modified in place (%s): entries set for one generated file leak into the source maps of the following ones "
            "(stale `sources` entries; indices resolve to an earlier operation file)" % muts, loc=rg.loc())
    nodes = rg.nodes()
    n_loop_uses = 0
    for ci, (c, _) in enumerate(nodes):
        if not (c.get("k") == "Call" and (call_name(c) or "").endswith("generate::write_file_and_sourcemap")):
            continue
        loops = [l for l in enclosing_contexts(rg, ci) if l[0] == "loop"]
        if not loops:
            continue
        n_loop_uses += 1
        fm_locals = {y["local"] for a_ in c["args"] for y in subnodes(a_) if y.get("k") == "Path" and "local" in y and "generate::FileMap" in norm(str(y.get("t", "")))}
        lets = [(i, n) for i, (n, _) in enumerate(nodes) if n.get("k") == "Let" and any(b.get("k") == "Binding" and b["local"] in fm_locals for b in subnodes(n["pat"]))]
        inner = loops[0][1]
        ok = bool(lets) and all(templates_contains(inner, n) for _, n in lets)
        R.check("R06-e", "filemap-per-output", ok, "the FileMap of a per-operation output is built in the same loop iteration",
                "the FileMap used for the per-operation source maps is built outside the operation loop and shared between iterations", loc=rg.loc())
    R.floor("R06-e", "source-mapped outputs written in a loop", n_loop_uses, 1)
    # write_file_and_sourcemap: sources from file_map (filtered by sentinel, store order), map json gets the output path
    w = P.fn("nitrogql_cli::generate::write_file_and_sourcemap")
    pvw = Prov(w)
    pj = [c for c in w.walk() if c.get("k") == "Call" and (call_name(c) or "").endswith("print_source_map_json")]
    R.floor("R06-e", "print_source_map_json calls", len(pj), 1)
    for c in pj:
        a0 = pvw.atoms(c["args"][0])
        a1 = pvw.atoms(c["args"][1])
        fc = [x for x in w.walk() if x.get("k") == "Call" and (call_name(x) or "") == "std::fs::File::create"]
        same = bool(fc) and {x for x in a0 if x[0] == "param"} == {x for x in pvw.atoms(fc[0]["args"][0]) if x[0] == "param"} == {("param", "output_file_path")}
        R.check("R06-e", "map-file-anchor", same, "`sources` are made relative to the generated file that the map sits next to",
                "print_source_map_json is given a different path than the one the output is written to", loc=w.loc())
        ok = ("param", "file_map") in a1 and has_field(a1, "nitrogql_cli::generate::FileMap", "file_indices") and has_field(a1, "nitrogql_cli::generate::FileMap", "file_store")
        R.check("R06-e", "sources-from-filemap", ok, "`sources` is derived from the same FileMap as the index mapper",
                "`sources` is not derived from file_map.file_indices zipped with file_map.file_store", loc=w.loc())
        bad = [x["method"] for x in subnodes(c["args"][1]) if x.get("k") == "MethodCall" and x["method"] in ("rev", "sorted", "sort", "skip", "take", "dedup", "unique")]
    zips = [c for c in w.walk() if c.get("k") == "MethodCall" and c["method"] == "zip"]
    R.check("R06-e", "sources-order", len(zips) == 1 and not any(x.get("k") == "MethodCall" and x["method"] in ("rev", "sorted", "sort_by", "sort", "skip", "take", "dedup")
                                                                for x in w.walk()),
            "`sources` keeps file-store order (indices are positions in it)", "`sources` is reordered/truncated relative to the index table", loc=w.loc())
    psm = P.fn("sourcemap_writer::source_writer::print_source_map_json")
    pvp = Prov(psm)
    rel = [c for c in psm.walk() if c.get("k") == "Call" and (call_name(c) or "").endswith("relative_path::relative_path")]
    ok = bool(rel) and ("param", "file") in pvp.atoms(rel[0]["args"][0]) and ("param", "source_files") in pvp.atoms(rel[0]["args"][1])
    R.check("R06-e", "sources-relative", ok, "each source is relative_path(generated file, source file)", "sources are not relative to the generated file", loc=psm.loc())
    keys = [lit_value(c["args"][0]) for c in psm.walk() if c.get("k") == "MethodCall" and c["method"] == "value"]
    R.check("R06-e", "v3-keys", keys == ["version", "file", "sourceRoot", "sources", "names", "mappings"], "Source Map v3 keys",
            "source map JSON keys are %s" % keys, loc=psm.loc())


def r06f(P, R):
    """generated-column arithmetic is in UTF-16 code units; line/column reset on newline"""
    w = P.fn(SMW_WRITE)
    pv = Prov(w)
    incs = [n for n in w.walk() if n.get("k") == "AssignOp" and n["l"].get("k") == "Field" and n["l"]["field"] == "current_column"]
    R.floor("R06-f", "column increments in write", len(incs), 1)
    for n in incs:
        a = pv.atoms(n["r"])
        ok = has_call(a, "utf16_len::utf16_len") and not any(x[0] == "call" and x[1].split("::")[-1] in ("count", "len", "len_utf8") for x in a)
        R.check("R06-f", "column-units:write", ok, "generated column advances by utf16_len(line)",
                "SourceWriter::write advances the generated column by something other than the UTF-16 length of the text "
                "(source map columns are UTF-16 code units): segments after a non-BMP character are misplaced", loc=w.loc())
    u = P.fn("sourcemap_writer::source_writer::utf16_len::utf16_len")
    ok = any(x.get("k") == "MethodCall" and x["method"] == "len_utf16" for x in u.walk()) and any(x.get("k") == "MethodCall" and x["method"] == "sum" for x in u.walk())
    R.check("R06-f", "utf16_len-def", ok, "utf16_len sums char::len_utf16", "utf16_len is not the sum of len_utf16 over chars", loc=u.loc())
    # newline: line += 1, column = 0, indent flag set
    sets = {(n["l"]["field"], n.get("op", "=")): n for n in w.walk() if n.get("k") in ("Assign", "AssignOp") and n["l"].get("k") == "Field" and norm(n["l"].get("adt")) == SW}
    R.check("R06-f", "newline-resets", ("current_line", "+=") in sets and ("current_column", "=") in sets and ("has_indent_flag", "=") in sets,
            "a newline advances the line, resets the column and defers indentation", "write does not reset line/column state on newline: %s" % sorted(sets), loc=w.loc())
    fl = P.fn(SW + "::flush_pending_indent")
    pvf = Prov(fl)
    inc = [n for n in fl.walk() if n.get("k") == "AssignOp" and n["l"]["field"] == "current_column"]
    ok = len(inc) == 1 and has_field(pvf.atoms(inc[0]["r"]), SW, "indent")
    R.check("R06-f", "indent-column", ok, "flushing indentation advances the column by the indent width", "flush_pending_indent does not advance the column by `indent`", loc=fl.loc())
    # closing segment: original column + utf16_len(name)
    wf = P.fn(SMW_WRITE_FOR)
    pvw = Prov(wf)
    adds = [c for c in wf.walk() if c.get("k") == "MethodCall" and (call_name(c) or "") == MW + "::add_entry"]
    closing = [c for c in adds if any(x.get("k") == "Binary" and x.get("op") == "+" for x in subnodes(c["args"][3]))]
    ok = len(closing) == 1 and has_call(pvw.atoms(closing[0]["args"][3]), "utf16_len")
    R.check("R06-f", "closing-segment-units", ok, "range-closing segment = original column + utf16_len(name)",
            "the range-closing segment is not `original column + utf16_len(name)`", loc=wf.loc())
    # VLQ sign/continuation constants
    b = P.fn("sourcemap_writer::base64_vlq::base64_vlq")
    ints = sorted(set(x.get("v") for x in b.walk() if x.get("k") == "Lit" and x.get("lk") == "int"))
    need = {"16", "15", "32", "31", "4", "5", "1", "0"}
    R.check("R06-f", "vlq-constants", need <= set(ints), "VLQ uses 4+5-bit groups, sign in bit 0, continuation bit 32",
            "base64_vlq constants are %s (expected to include %s)" % (ints, sorted(need)), loc=b.loc())
    # continuation digits: inside the digit loop, the 5-bit group is read before the shift, and the continuation bit is set exactly
    # when something remains after this group
    nodes = b.nodes()
    loops = [i for i, (x, _) in enumerate(nodes) if x.get("k") == "Loop"]
    R.floor("R06-f", "VLQ digit loop", len(loops), 1)
    for li in loops:
        loop = nodes[li][0]
        inside = [(i, x) for i, (x, _) in enumerate(nodes) if i > li and templates_contains(loop, x)]
        shifts = [(i, x) for i, x in inside if x.get("k") == "AssignOp" and x.get("op") == ">>=" and lit_value(x["r"]) in (5, "5")]
        conts = [(i, x) for i, x in inside if x.get("k") == "If" and not x.get("x")
                 and {str(lit_value(y)) for y in subnodes(x.get("then")) + subnodes(x.get("else") or {}) if y.get("k") == "Lit"} >= {"32", "0"}]
        masks = [(i, x) for i, x in inside if x.get("k") == "Binary" and x.get("op") == "&" and str(lit_value(x["r"])) == "31"]
        if len(shifts) != 1 or len(conts) != 1 or len(masks) != 1:
            R.undecided("R06-f", "vlq-continuation", "digit loop not in a recognised shape (shifts=%d, continuation tests=%d, masks=%d)" % (len(shifts), len(conts), len(masks)), loc=b.loc())
            continue
        (si, sh), (ci, co), (mi, ma) = shifts[0], conts[0], masks[0]
        var = sh["l"].get("local")
        cond = co["cond"]
        while cond.get("k") in ("DropTemps", "Paren"):
            cond = cond["e"]
        form = None
        if cond.get("k") == "Binary":
            lhs, rhs, op = cond["l"], cond["r"], cond.get("op")
            n = lit_value(rhs)
            n = int(n) if n is not None and str(n).isdigit() else None
            if lhs.get("k") == "Path" and lhs.get("local") == var and n is not None:
                form = ("var", op, n)
            elif lhs.get("k") == "Binary" and lhs.get("op") == ">>" and lhs["l"].get("local") == var and str(lit_value(lhs["r"])) == "5" and n is not None:
                form = ("shifted", op, n)
        after = ci > si
        if form is None:
            R.undecided("R06-f", "vlq-continuation", "continuation test is not a comparison of the remaining value with a constant", loc=b.loc())
        else:
            remainder_positive = {("var", ">", 0), ("var", "!=", 0), ("var", ">=", 1)}
            ok = (form in remainder_positive) if (after or form[0] == "shifted") else form in {("var", ">", 31), ("var", ">=", 32)}
            if form[0] == "shifted" and after:
                ok = False
            R.check("R06-f", "vlq-continuation", ok, "continuation bit <=> a non-zero remainder follows this 5-bit group",
                    "the continuation bit of a VLQ digit is decided by `%s %s %d` evaluated %s the 5-bit shift: for some values a digit is "
                    "written without its continuation bit although another digit follows (or vice versa), so the field decodes as two"
                    % ("value" if form[0] == "var" else "value >> 5", form[1], form[2], "after" if after else "before"), loc=b.loc())
        R.check("R06-f", "vlq-group-before-shift", mi < si, "the digit's 5 bits are read before the value is shifted",
                "the 5-bit group is read after the shift: the digit carries the next group's bits", loc=b.loc())
    tab = [n for n in P.fns.values() if n.path.endswith("base64_vlq::BASE64_CHARS")]
    if tab:
        chars = "".join(x.get("v") for x in tab[0].walk() if x.get("k") == "Lit" and x.get("lk") == "char")
        R.check("R06-f", "base64-alphabet", chars == "ABCDEFGHIJKLMNOPQRSTUVWXYZabcdefghijklmnopqrstuvwxyz0123456789+/",
                "standard base64 alphabet in order", "base64 alphabet table is `%s`" % chars, loc=tab[0].loc())
    else:
        R.violated("R06-f", "base64-alphabet", "kind=anchor-missing: BASE64_CHARS table not found")


RULES = [("R06-a", r06a), ("R06-b", r06b), ("R06-c", r06c), ("R06-d", r06d), ("R06-e", r06e), ("R06-f", r06f)]
EXPLANATION = (
    "Structural necessary conditions of source-map validity: (R06-a) every last_* delta base of MappingWriter::add_entry is "
    "subtracted from and updated with the same parameter, on the same paths, and the VLQ fields are emitted in v3 order; (R06-b) "
    "the usize::MAX sentinel generate.rs puts in the file-index table is filtered by every consumer (today write_for does not: "
    "known finding); (R06-c) in the named branch of write_for, flush_pending_indent dominates add_entry, the order is [segment, "
    "chunk, closing segment], builtin nodes emit no segment and add_entry gets (gen line, gen col, orig line, orig col, source) in "
    "position; (R06-d) at every declaration site of the schema/resolver/operation printers the identifier after `type `/`const ` "
    "is written by write_for on an identifier-like node; (R06-e) the index mapper and `sources` come from the same FileMap with "
    "the table schema k -> k, current operation file -> schema_len(), others -> sentinel, `sources` keeps store order and is "
    "relative to the generated file; (R06-f) generated columns advance by utf16_len, newline/indent bookkeeping, closing segment "
    "units, VLQ constants and alphabet. Not decided: decode validity of emitted maps, token starts, VLQ round trip.")
ASSUMPTIONS = ["json_writer, lru (third-party)", "relative_path correctness is C20 (not claimed)"]


def main(tier):
    return harness.run_property("C06", RULES, "other", EXPLANATION, ASSUMPTIONS, tier)
