"""interactive helper: python3 -i rules/dbg.py"""
import sys, os, json
sys.path.insert(0, os.path.dirname(os.path.abspath(__file__)))
import harness
from facts import *
from prov import *
from mirq import *
d, info = harness.ensure_facts()
P = Program(d)
def show(n, depth=3, ind=0):
    if isinstance(n, dict):
        k = n.get("k")
        extra = {kk: v for kk, v in n.items() if not isinstance(v, (dict, list)) and kk not in ("k", "t", "ta")}
        print(" " * ind + str(k), extra)
        if depth > 0:
            for kk, v in n.items():
                if isinstance(v, (dict, list)):
                    print(" " * ind + " ." + kk)
                    show(v, depth - 1, ind + 2)
    elif isinstance(n, list):
        for x in n:
            show(x, depth, ind)
