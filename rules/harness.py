"""Check harness: fact extraction (cached by source hash), reporting, known findings, evidence."""
import fcntl
import hashlib
import json
import os
import shutil
import subprocess
import sys
import tempfile
import time
import traceback

VERIF = os.path.dirname(os.path.dirname(os.path.abspath(__file__)))
REPO = os.environ.get("VERIF_REPO", "/repo")
CACHE = os.path.join(VERIF, ".cache")
DRIVER_DIR = os.path.join(VERIF, "engine", "factdrv")
DRIVER = os.path.join(DRIVER_DIR, "target", "debug", "factdrv")
GRAM_DIR = os.path.join(VERIF, "engine", "gramcheck")
GRAM = os.path.join(GRAM_DIR, "target", "debug", "gramcheck")
KNOWN = os.path.join(VERIF, "known-findings.txt")


def sh(cmd, **kw):
    return subprocess.run(cmd, shell=isinstance(cmd, str), stdout=subprocess.PIPE,
                          stderr=subprocess.STDOUT, text=True, **kw)


def nightly_sysroot():
    r = sh("rustc +nightly --print sysroot")
    return r.stdout.strip()


def offline_env():
    env = dict(os.environ)
    env["CARGO_NET_OFFLINE"] = "true"
    return env


def build_engines():
    """Build the driver (and gramcheck if present). Idempotent; used by setup_cmd and lazily."""
    env = offline_env()
    r = sh("cargo build --offline", cwd=DRIVER_DIR, env=env)
    if r.returncode != 0 or not os.path.exists(DRIVER):
        sys.stdout.write(r.stdout)
        raise SystemExit("factdrv build failed")
    if os.path.exists(os.path.join(GRAM_DIR, "Cargo.toml")):
        lock = os.path.join(GRAM_DIR, "Cargo.lock")
        if not os.path.exists(lock):
            shutil.copy(os.path.join(REPO, "Cargo.lock"), lock)
        r = sh("cargo build --offline", cwd=GRAM_DIR, env=env)
        if r.returncode != 0 or not os.path.exists(GRAM):
            sys.stdout.write(r.stdout)
            raise SystemExit("gramcheck build failed")


def _sha(path):
    h = hashlib.sha256()
    with open(path, "rb") as f:
        while True:
            b = f.read(1 << 20)
            if not b:
                break
            h.update(b)
    return h.hexdigest()


def repo_hash(extra=""):
    """Hash of every file of /repo that cargo reads for the workspace build (tracked or not)."""
    r = subprocess.run(
        ["git", "-C", REPO, "ls-files", "-co", "--exclude-standard", "--", "crates", "Cargo.toml",
         "Cargo.lock", ".cargo"], stdout=subprocess.PIPE, text=True)
    files = sorted(set(x for x in r.stdout.split("\n") if x))
    if not files:
        # not a git checkout: walk
        for root, dirs, fs in os.walk(os.path.join(REPO, "crates")):
            dirs[:] = [d for d in dirs if d != "target"]
            for f in fs:
                files.append(os.path.relpath(os.path.join(root, f), REPO))
        files += ["Cargo.toml", "Cargo.lock"]
        files = sorted(set(files))
    h = hashlib.sha256()
    for f in files:
        p = os.path.join(REPO, f)
        if not os.path.isfile(p):
            continue
        h.update(f.encode())
        h.update(b"\0")
        h.update(_sha(p).encode())
        h.update(b"\n")
    h.update(extra.encode())
    return h.hexdigest()[:24]


def ensure_facts(all_targets=False, log=print):
    """Extract facts from /repo's current working tree (or reuse an exact-hash cache entry).
    Returns (facts_dir, info dict)."""
    pre = os.environ.get("VERIF_FACTS_DIR")
    if pre:
        # regression tooling only (tools/regress.py): facts of a scratch tree extracted earlier with the same driver
        return pre, {"facts_key": os.path.basename(pre.rstrip("/")), "cached": True}
    os.makedirs(CACHE, exist_ok=True)
    if not os.path.exists(DRIVER):
        log("[extract] driver missing, building")
        build_engines()
    variant = "all" if all_targets else "lib"
    key = repo_hash(extra=_sha(DRIVER) + variant)
    os.makedirs(os.path.join(CACHE, "locks"), exist_ok=True)
    with open(os.path.join(CACHE, "locks", key), "w") as lk:
        fcntl.flock(lk, fcntl.LOCK_EX)
        d = os.path.join(CACHE, "facts", key)
        done = os.path.join(d, "DONE")
        info = {"facts_key": key, "cached": True}
        if os.path.exists(done) and any(f.endswith(".json") for f in os.listdir(d)):
            info.update(json.load(open(done)))
            info["cached"] = True
            try:
                os.utime(d)
            except OSError:
                pass
            return d, info
        if os.path.exists(d):
            shutil.rmtree(d)
        os.makedirs(d)
        t0 = time.time()
        target = tempfile.mkdtemp(prefix="verif-target-")
        try:
            env = offline_env()
            env["LD_LIBRARY_PATH"] = nightly_sysroot() + "/lib"
            env["RUSTFLAGS"] = "-Zmir-opt-level=0 -Awarnings"
            env["RUSTC_WORKSPACE_WRAPPER"] = DRIVER
            env["FACTDRV_OUT"] = d
            env["CARGO_TARGET_DIR"] = target
            cmd = "cargo +nightly check --workspace --offline" + (" --all-targets" if all_targets else "")
            r = sh(cmd, cwd=REPO, env=env)
            if r.returncode != 0:
                sys.stdout.write(r.stdout[-6000:])
                shutil.rmtree(d, ignore_errors=True)
                print("ERROR: /repo does not build under the fact driver; no verdict")
                raise SystemExit(2)
        finally:
            shutil.rmtree(target, ignore_errors=True)
        n = len([f for f in os.listdir(d) if f.endswith(".json")])
        if n == 0:
            shutil.rmtree(d, ignore_errors=True)
            print("ERROR: driver produced no fact file (cargo skipped the wrapper?)")
            raise SystemExit(2)
        info = {"facts_key": key, "extract_s": round(time.time() - t0, 1), "fact_files": n,
                "cmd": cmd}
        json.dump(info, open(done, "w"))
        info["cached"] = False
        # prune old entries
        root = os.path.join(CACHE, "facts")
        ents = sorted((os.path.getmtime(os.path.join(root, e)), e) for e in os.listdir(root))
        for _, e in ents[:-24]:
            shutil.rmtree(os.path.join(root, e), ignore_errors=True)
        return d, info


def selfcheck_facts():
    """facts of engine/selfcheck (positive controls), extracted with the same driver; cached by content hash"""
    sc = os.path.join(VERIF, "engine", "selfcheck")
    os.makedirs(CACHE, exist_ok=True)
    if not os.path.exists(DRIVER):
        build_engines()
    key = hashlib.sha256((_sha(os.path.join(sc, "src", "lib.rs")) + _sha(DRIVER)).encode()).hexdigest()[:16]
    d = os.path.join(CACHE, "selfcheck", key)
    if os.path.exists(os.path.join(d, "DONE")):
        return d
    shutil.rmtree(d, ignore_errors=True)
    os.makedirs(d)
    target = tempfile.mkdtemp(prefix="verif-selfcheck-")
    try:
        env = offline_env()
        env["LD_LIBRARY_PATH"] = nightly_sysroot() + "/lib"
        env["RUSTFLAGS"] = "-Zmir-opt-level=0 -Awarnings"
        env["RUSTC_WORKSPACE_WRAPPER"] = DRIVER
        env["FACTDRV_OUT"] = d
        env["CARGO_TARGET_DIR"] = target
        r = sh("cargo +nightly check --offline", cwd=sc, env=env)
        if r.returncode != 0 or not any(f.endswith(".json") for f in os.listdir(d)):
            sys.stdout.write(r.stdout[-3000:])
            print("ERROR: positive-control crate did not build under the driver")
            raise SystemExit(2)
    finally:
        shutil.rmtree(target, ignore_errors=True)
    open(os.path.join(d, "DONE"), "w").write("ok")
    return d


# ------------------------------------------------------------------ known findings
def load_known():
    """known-findings.txt lines:
         open: property=C03 key=<key> :: <what fails> :: witness=<path>
         fixed: property=C03 <commit> <what failed>
       Only `open:` lines suppress anything, and only by exact (property, key)."""
    out = {}
    if not os.path.exists(KNOWN):
        return out
    for line in open(KNOWN):
        line = line.strip()
        if not line.startswith("open:"):
            continue
        body = line[len("open:"):].strip()
        parts = [p.strip() for p in body.split(" :: ")]
        head = parts[0].split()
        prop = None
        key = None
        for h in head:
            if h.startswith("property="):
                prop = h[len("property="):]
            elif h.startswith("key="):
                key = h[len("key="):]
        if prop and key:
            out[(prop, key)] = {"what": parts[1] if len(parts) > 1 else "",
                                "witness": parts[2] if len(parts) > 2 else ""}
    return out


_PROGRAMS = {}


class Reporter:
    def __init__(self, prop, tier):
        self.prop = prop
        self.tier = tier
        self.results = []  # dicts: rule,key,status,msg,loc,detail
        self.analysed = {}
        self.notes = []

    def _add(self, rule, key, status, msg, loc=None, detail=None):
        self.results.append({"rule": rule, "key": "%s:%s" % (rule, key), "status": status,
                             "msg": msg, "loc": loc, "detail": detail})

    def holds(self, rule, key, msg="", loc=None, detail=None):
        self._add(rule, key, "HOLDS", msg, loc, detail)

    def violated(self, rule, key, msg, loc=None, detail=None):
        self._add(rule, key, "VIOLATED", msg, loc, detail)

    def undecided(self, rule, key, msg, loc=None, detail=None):
        self._add(rule, key, "UNDECIDED", msg, loc, detail)

    def check(self, rule, key, cond, msg_ok="", msg_bad="", loc=None, detail=None):
        if cond:
            self.holds(rule, key, msg_ok, loc, detail)
        else:
            self.violated(rule, key, msg_bad or msg_ok, loc, detail)
        return cond

    def floor(self, rule, what, count, minimum, hard=False):
        """Fewer instances than were confirmed by hand on the pinned tree: the rule would pass vacuously.
        This is NOT evidence that the property is broken (a refactoring moves anchors too), so by default the instance is
        UNDECIDED — printed, counted in the evidence, never an alarm.  `hard=True` is for floors whose shortfall *is* the
        violation (a validation rule that no reachable code applies any more)."""
        if count < minimum:
            msg = ("kind=anchor-missing: only %d instance(s) of %s found, %d were confirmed on the pinned tree (the code was "
                   "restructured; this rule does not decide the new shape)" % (count, what, minimum))
            if hard:
                self.violated(rule, "floor:" + what, msg)
            else:
                self.undecided(rule, "floor:" + what, msg)
        else:
            self.holds(rule, "floor:" + what, "%d instance(s) of %s (floor %d)" % (count, what, minimum))

    def note(self, s):
        self.notes.append(s)

    def count(self, what, n):
        self.analysed[what] = self.analysed.get(what, 0) + n


def run_property(prop, rules, level, explanation, assumptions, tier, all_targets=False,
                 extra_coverage=None, need_facts=True):
    """rules: list of (rule_id, fn(P, R)) ; returns exit code"""
    from facts import Program, AnchorMissing
    t0 = time.time()
    R = Reporter(prop, tier)
    info = {}
    P = None
    if need_facts:
        facts_dir, info = ensure_facts(all_targets=all_targets)
        P = _PROGRAMS.get(facts_dir)
        if P is None:
            P = _PROGRAMS[facts_dir] = Program(facts_dir)
        import prov
        if prov.PROGRAM is not P:
            prov.PROGRAM = P
            prov._SUMMARY.clear()
        R.count("crates", len(P.crates))
        R.count("functions", len(P.fns))
        R.count("mir_bodies", len(P.mir))
        R.count("adts", len(P.adts))
    for rid, fn in rules:
        try:
            fn(P, R)
        except AnchorMissing as e:
            # an anchor that cannot be resolved is not evidence of a violation: the rule is undecided on this tree
            R.undecided(rid, "anchor", "kind=anchor-missing: %s (the rule cannot be evaluated on this shape of the code)" % e)
        except SystemExit:
            raise
        except Exception as e:  # a crash of a rule is not a verdict: the rule is undecided on this tree, the others still run
            tb = traceback.format_exc().strip().split("\n")
            print("RULE-CRASH rule=%s %r at %s" % (rid, e, tb[-3].strip() if len(tb) >= 3 else ""))
            R.undecided(rid, "crash", "the rule crashed on this shape of the code (%r); it decides nothing here" % (e,))
    if P is not None:
        # cross-cutting state discipline (memoisation / process-wide state) over the code this property is about
        try:
            import xstate
            if prop in xstate.SCOPES:
                xstate.state_rules(P, R, prop)
        except AnchorMissing as e:
            R.undecided("R%s-s" % prop[1:], "anchor", "kind=anchor-missing: %s" % e)
        except Exception as e:
            tb = traceback.format_exc().strip().split("\n")
            print("RULE-CRASH rule=R%s-s %r at %s" % (prop[1:], e, tb[-3].strip() if len(tb) >= 3 else ""))
            R.undecided("R%s-s" % prop[1:], "crash", "the state rules crashed on this shape of the code (%r)" % (e,))
    if tier == "thorough" and not os.environ.get("VERIF_SUBRUN"):
        import selftest
        st = selftest.run(prop)
        extra_coverage = dict(extra_coverage or {})
        extra_coverage["mutation_selftest"] = st
        R.count("selftest_patches", st["patches"])
        R.count("selftest_caught", len(st["caught"]))
        R.count("selftest_missed", len(st["missed"]))
        R.count("selftest_benign_patches", st.get("benign_patches", 0))
        R.count("selftest_benign_silent", st.get("benign_silent", 0))
        R.count("selftest_false_alarms", len(st.get("false_alarms", [])))
    return finish(prop, R, level, explanation, assumptions, tier, t0, info, extra_coverage)


def finish(prop, R, level, explanation, assumptions, tier, t0, info, extra_coverage=None):
    known = load_known()
    n_h = sum(1 for r in R.results if r["status"] == "HOLDS")
    n_v = sum(1 for r in R.results if r["status"] == "VIOLATED")
    n_u = sum(1 for r in R.results if r["status"] == "UNDECIDED")
    print("[%s] tier=%s facts=%s%s analysed: %s" % (
        prop, tier, info.get("facts_key", "-"), " (cached)" if info.get("cached") else "",
        ", ".join("%s=%s" % kv for kv in sorted(R.analysed.items()))))
    by_rule = {}
    for r in R.results:
        b = by_rule.setdefault(r["rule"], [0, 0, 0])
        b[{"HOLDS": 0, "VIOLATED": 1, "UNDECIDED": 2}[r["status"]]] += 1
    for rule, (h, v, u) in sorted(by_rule.items()):
        print("  rule %-8s instances=%d holds=%d violated=%d undecided=%d" % (rule, h + v + u, h, v, u))
    for n in R.notes:
        print("  note: " + n)
    for r in R.results:
        if r["status"] == "UNDECIDED":
            print("  UNDECIDED %s: %s%s" % (r["key"], r["msg"], (" @ " + r["loc"]) if r["loc"] else ""))
    new_violations = []
    known_hit = []
    for r in R.results:
        if r["status"] != "VIOLATED":
            continue
        k = (prop, r["key"])
        if k in known:
            known_hit.append(r)
            print("KNOWN-FINDING: property=%s %s :: %s%s" % (
                prop, r["key"], known[k]["what"] or r["msg"],
                (" :: " + known[k]["witness"]) if known[k]["witness"] else ""))
        else:
            new_violations.append(r)
    stale = [k for (p, k) in known if p == prop and k not in set(r["key"] for r in known_hit)]
    for k in stale:
        print("  note: listed finding %s no longer reproduces on this tree (nothing suppressed)" % k)
    subrun = bool(os.environ.get("VERIF_SUBRUN"))
    replay_dir = os.path.join(VERIF, "out", "replay-sub" if subrun else "replay")
    os.makedirs(replay_dir, exist_ok=True)
    for i, r in enumerate(new_violations):
        path = os.path.join(replay_dir, "%s-%d.json" % (prop, i))
        json.dump({"property": prop, "rule": r["rule"], "key": r["key"], "message": r["msg"],
                   "location": r["loc"], "facts": r["detail"], "facts_key": info.get("facts_key"),
                   "replay": "./check %s" % prop}, open(path, "w"), indent=1, default=str)
        print("  %s @ %s\n    %s" % (r["key"], r["loc"], r["msg"]))
        print("VIOLATION property=%s replay=%s" % (prop, path))
    wall = time.time() - t0
    samples = []
    for r in R.results:
        if len(samples) >= 12:
            break
        if r["status"] == "HOLDS" and (r["loc"] or r["detail"]):
            samples.append({"instance": r["key"], "status": r["status"], "why": r["msg"], "at": r["loc"]})
    for r in R.results:
        if r["status"] != "HOLDS" and len(samples) < 24:
            samples.append({"instance": r["key"], "status": r["status"], "why": r["msg"], "at": r["loc"]})
    if not samples:
        samples = [{"instance": r["key"], "status": r["status"], "why": r["msg"]} for r in R.results[:5]]
    cov = {
        "explanation": explanation,
        "obligations": len(R.results),
        "discharged": n_h,
        "violated_known": len(known_hit),
        "violated_new": len(new_violations),
        "undecided": n_u,
        "rule_instances": {k: {"holds": v[0], "violated": v[1], "undecided": v[2]} for k, v in by_rule.items()},
        "analysed": R.analysed,
        "facts_key": info.get("facts_key"),
        "facts_cached": info.get("cached"),
        "samples": samples,
        "exhaustive": True,
        "evaluations": max(1, len(R.results)),
        "distinct_nontrivial": max(2, len(set(r["key"] for r in R.results))),
        "rule": "one obligation per (rule, resolved anchor, instance); distinct by key",
    }
    if extra_coverage:
        cov.update(extra_coverage)
    if level == "proof":
        cov["checker_cmd"] = "./check %s --tier %s" % (prop, tier)
        cov["trusted_base"] = assumptions
    ev = {
        "property_id": prop,
        "tier": tier,
        "seed": int(os.environ.get("VERIF_SEED", "0") or 0),
        "level": level,
        "coverage": cov,
        "assumptions": assumptions,
        "wall_s": round(wall, 2),
        "violations": len(new_violations),
    }
    if not subrun:
        os.makedirs(os.path.join(VERIF, "evidence"), exist_ok=True)
        json.dump(ev, open(os.path.join(VERIF, "evidence", prop + ".json"), "w"), indent=1, default=str)
    print("[%s] obligations=%d holds=%d known=%d new=%d undecided=%d wall=%.1fs" % (
        prop, len(R.results), n_h, len(known_hit), len(new_violations), n_u, wall))
    return 1 if new_violations else 0
