"""C19 — Loader tasks are isolated and safe under any sequence of loader calls (ownership and totality clauses)."""
import harness
from facts import norm, call_name, short, subnodes, field_reads, peel_ty, lit_value, AnchorMissing
from prov import Prov, has_field, has_call
from mirq import MirQ
from templates import enclosing_contexts, inlined, scope_fns, LOSSY_OR_REORDERING

LC = "graphql_loader"
L = LC + "::"
GROW = {"push", "push_str", "insert", "insert_str", "reserve", "reserve_exact", "extend", "extend_from_slice",
        "shrink_to_fit", "shrink_to", "truncate", "clear", "pop", "remove", "retain", "drain", "replace_range",
        "try_reserve", "try_reserve_exact", "add_assign", "write_str", "write_fmt", "write_char"}
ADDERS = {"push", "insert", "push_back", "push_front", "extend", "append", "extend_from_slice"}
CONSUMERS = {"drain", "pop", "take", "into_iter", "remove", "swap_remove", "split_off"}
RAW = ("from_raw_parts", "transmute", "from_utf8_unchecked", "::read", "::write", "offset", "from_raw", "get_unchecked",
       "unwrap_unchecked", "assume_init", "copy_nonoverlapping", "::add", "::sub", "as_ref_unchecked", "zeroed")
STR_FRP = "alloc::string::String::from_raw_parts"
SLICE_FRP = "core::slice::raw::from_raw_parts"


# ------------------------------------------------------------------------------------------------------- anchors by role
class Loader:
    """the loader's types and functions, resolved through the typed program: the `Task`/`Tasks` ADTs of the loader crate wherever
    their module is, their fields by type, their methods by owner — so that moving `Task` to another file, renaming a private
    field or turning a tuple into a struct does not disturb a rule"""

    def __init__(self, P):
        self.P = P
        self.task = self._adt("Task")
        self.tasks = self._adt("Tasks")
        T = self.task.path
        ft = self.task.field_types()
        # the record of a leaked source buffer: a `*mut u8` (directly in a tuple, or inside a struct of this crate)
        self.record_adt = None
        dl = [n for n, t in ft.items() if "*mut u8" in t]
        if not dl:
            for n, t in ft.items():
                for ap, a in P.adts.items():
                    if ap.startswith(L) and a.kind == "Struct" and ap in t and any("*mut u8" in x for x in a.field_types().values()):
                        dl.append(n)
                        self.record_adt = a
        # a redesigned ownership scheme (an owning arena type, boxes instead of raw parts) has no such field: only the rules that
        # are about the (ptr, len, capacity) protocol become undecided, the others still run
        self.drop_list = dl[0] if len(dl) == 1 else None
        self.drop_list_missing = None if len(dl) == 1 else \
            "the field of `%s` that records the leaked source buffers (raw pointer entries) cannot be identified: %s" % (T, dl)
        docs = [n for n, t in ft.items() if "OperationDocument" in t or any(ap.startswith(L) and ap in t and any("OperationDocument" in x for x in a.field_types().values())
                                                                             for ap, a in P.adts.items() if a.kind == "Struct")]
        docs = [n for n in docs if n != self.drop_list]
        if len(docs) != 1:
            raise AnchorMissing("the field of `%s` that holds the parsed documents cannot be identified: %s" % (T, docs))
        self.docs = docs[0]
        roots = [n for n, t in ft.items() if t == "std::path::PathBuf"]
        if len(roots) != 1:
            raise AnchorMissing("the root-file-name field (PathBuf) of `%s` cannot be identified: %s" % (T, roots))
        self.root = roots[0]
        drops = [f for f in P.trait_impls("core::ops::drop::Drop", "drop") if f.self_adt == T]
        if len(drops) != 1:
            raise AnchorMissing("`impl Drop for %s` not found" % T)
        self.drop = drops[0]
        # ADTs of the crate owned by a task (its field types, transitively) and the Drop impls that run when a task is dropped
        owned, todo = {T}, [self.task]
        while todo:
            a = todo.pop()
            if a.kind != "Struct":
                continue
            for t in a.field_types().values():
                for bp, b in P.adts.items():
                    if bp.startswith(L) and bp not in owned and bp in t and bp != self.tasks.path:
                        owned.add(bp)
                        todo.append(b)
        self.owned = owned
        self.owner_drops = {f.path for f in P.trait_impls("core::ops::drop::Drop", "drop") if f.self_adt in owned}
        self.reg = P.fn(T + "::register_file")
        self.new = P.fn(T + "::new", required=False)
        self.abi = {f.name: f for f in P.fns.values() if f.crate == LC and f.no_mangle and f.abi and f.abi.startswith("C") and "::tests" not in f.path}
        self.counters = [n for n, t in self.tasks.field_types().items() if t in ("usize", "u32", "u64")]

    def _adt(self, name):
        hits = [a for p, a in self.P.adts.items() if p.startswith(L) and p.split("::")[-1] == name]
        if len(hits) != 1:
            raise AnchorMissing("type `%s` of the loader crate not found (%d candidates)" % (name, len(hits)))
        return hits[0]

    def method(self, adt, name):
        return self.P.fn(adt.path + "::" + name)

    def logic(self, name):
        """the task-logic function behind the ABI export `name`: same name, takes the task table as a parameter (its module may
        be renamed; the ABI export itself takes raw pointers/ids)"""
        f = self.P.fn(L + "loader::" + name, required=False)
        if f is not None:
            return f
        hits = [g for g in self.P.by_name.get(name, []) if g.crate == LC and _live(g) and any(peel_ty(t).split("<")[0] == self.tasks.path for t in g.sig_inputs)]
        if len(hits) != 1:
            raise AnchorMissing("the loader function `%s` taking the task table not found (%d candidates)" % (name, len(hits)))
        return hits[0]


def _live(f):
    return not f.derived and "::tests" not in f.path


def only_via(P, path, gates, _seen=None):
    """every call chain (over non-test workspace callers) that reaches `path` passes through a function of `gates`: walking the
    call graph backwards from `path` without crossing a gate never arrives at a function that nobody calls (an entry point)"""
    if path in gates:
        return True
    seen, todo = set(), [path]
    while todo:
        p = todo.pop()
        if p in seen or p in gates:
            continue
        seen.add(p)
        callers = [c for c in P.callers_of(p) if "::tests" not in c and not P.fns[c].derived and c != p]
        if not callers:
            return False
        todo.extend(callers)
    return True


def reaches(P, src, dst):
    return dst in P.reachable([src])


# ---------------------------------------------------------------------------------------------------------------- R19-a
def user_unsafe(P):
    out = []
    for f in P.fns.values():
        if f.derived or "::tests" in f.path:
            continue
        for n in f.walk():
            if n.get("k") == "Block" and n.get("unsafe") and not n.get("x"):
                cs = sorted(set(call_name(x) for x in subnodes(n) if x.get("k") in ("Call", "MethodCall") and call_name(x)))
                derefs = [x for x in subnodes(n) if x.get("k") == "Unary" and x.get("op") == "Deref" and "*" in (x["e"].get("t") or "")[:1]]
                out.append((f, n, cs, derefs))
    return out


def unsafe_ops(P):
    """[(fn, kind, callee, node)] every operation that needs `unsafe`, wherever it is written: raw-memory APIs, raw derefs, calls of
    foreign functions and of workspace `unsafe fn`s — inside user-written unsafe blocks and bodies of `unsafe fn`s"""
    out, seen = [], set()
    crates = set(P.crates)
    for f in sorted(P.fns.values(), key=lambda g: g.path):
        if f.derived or "::tests" in f.path:
            continue
        regions = [n for n in f.walk() if n.get("k") == "Block" and n.get("unsafe") and not n.get("x")]
        if f.raw.get("unsafe_fn"):
            regions.append(f.body)
        for r in regions:
            for x in subnodes(r):
                if id(x) in seen:
                    continue
                if x.get("k") in ("Call", "MethodCall"):
                    c = call_name(x)
                    if not c:
                        continue
                    g = P.fns.get(c)
                    if g is not None:
                        if g.raw.get("unsafe_fn"):
                            seen.add(id(x))
                            out.append((f, "unsafe-fn", c, x))
                    elif any(w in c for w in RAW):
                        seen.add(id(x))
                        out.append((f, "raw", c, x))
                    elif c.split("::")[0] in crates and x.get("k") == "Call":
                        seen.add(id(x))
                        out.append((f, "foreign", c, x))
                elif x.get("k") == "Unary" and x.get("op") == "Deref" and "*" in (x["e"].get("t") or "")[:1]:
                    seen.add(id(x))
                    out.append((f, "deref", "*", x))
    return out


def r19a(P, R):
    """inventory of unsafe operations.  A listed operation is identified by its callee and its *ownership argument* (who may reach
    it, what its arguments are), never by the name of the function it is written in: moving it into a helper or an `unsafe fn` of
    another type keeps it the same operation; one more operation of the same kind is a new one."""
    ld = Loader(P)
    blocks = user_unsafe(P)
    R.count("unsafe_blocks", len(blocks))
    ops = unsafe_ops(P)
    R.count("unsafe_operations", len(ops))
    free_abi = {c: [f.path for f in P.fns.values() if f.crate == c and f.no_mangle and f.name == "free_string" and "::tests" not in f.path] for c in (LC, "nitrogql_cli")}
    host_copy_crates = (LC, "nitrogql_async_runtime")
    used = {}
    n_listed = 0

    def take(cls, limit):
        used[cls] = used.get(cls, 0) + 1
        return used[cls] <= limit
    for f, kind, c, x in ops:
        pv = None
        where = "%s" % f.path
        if kind == "foreign":
            ok = f.crate in ("nitrogql_async_runtime", "nitrogql_config_file")
            R.check("R19-a", "unsafe:%s:ffi:%s" % (f.crate, c.split("::")[-1]), ok, "FFI call into the host runtime (no raw memory handed out)",
                    "%s calls the foreign function %s: only the JS-host bindings of the async runtime may" % (where, c), loc=f.loc())
            continue
        if kind == "unsafe-fn":
            R.holds("R19-a", "unsafe:%s:calls:%s" % (f.crate, short(c)), "calls the workspace `unsafe fn` %s, whose own operations are inventoried" % short(c), loc=f.loc())
            continue
        if kind == "deref":
            R.violated("R19-a", "unsafe:%s:raw-deref#%d" % (f.crate, take("deref:" + f.crate, 0)), "%s dereferences a raw pointer: not a listed unsafe operation" % where, loc=f.loc())
            continue
        cls, why = None, ""
        args = x.get("args", [])
        if c == STR_FRP and f.crate in free_abi and len(args) == 3:
            pv = Prov(f)
            if only_via(P, f.path, ld.owner_drops):
                cls, why = "task-drop-free:" + f.crate, "rebuilds a leaked source buffer from its recorded parts; reachable only from `impl Drop for Task`"
            elif free_abi[f.crate] and only_via(P, f.path, set(free_abi[f.crate])) and lit_value(args[1]) == "0" \
                    and all(any(a[0] == "param" for a in pv.atoms(e)) for e in (args[0], args[2])):
                cls, why = "abi-free-string:" + f.crate, "rebuilds the String leaked by alloc_string (len 0, capacity = requested) to free it; reachable only from the `free_string` export"
        elif c in ("alloc::boxed::Box::from_raw", "alloc::vec::Vec::from_raw_parts") and f.crate == LC and args and only_via(P, f.path, ld.owner_drops):
            pv = Prov(f)
            if any(a[0] == "field" and a[1] in ld.owned for a in pv.atoms(args[0])):
                cls, why = "task-drop-free:" + f.crate, "rebuilds a leaked source buffer recorded in an object the task owns; reachable only from the Drop of that owner"
        elif c == SLICE_FRP and f.crate in host_copy_crates:
            pv = Prov(f)
            copied = [y for y in f.walk() if y.get("k") == "MethodCall" and y["method"] in ("to_vec", "to_owned", "into_boxed_slice")
                      and any(a == ("call", SLICE_FRP) for a in pv.atoms(y["recv"]))]
            escapes = any(ch in (f.sig_output or "") for ch in ("&", "*"))
            if copied and not escapes:
                cls, why = "host-buffer-copy:" + f.crate, "reads the bytes the host handed over and copies them out at once (to_vec); nothing borrowed escapes"
        key_c = c.split("::")[-3] + "::" + c.split("::")[-1] if c.count("::") >= 2 else c
        if cls and take(cls, 1):
            n_listed += 1
            R.holds("R19-a", "unsafe:%s:%s" % (key_c, cls), why, loc=f.loc())
        elif cls:
            R.violated("R19-a", "unsafe:%s:%s#%d" % (key_c, cls, used[cls]), "%s performs a further `%s` with the ownership argument `%s`, which is listed once: a second "
                       "reconstruction of the same buffer would free it twice" % (where, c, cls), loc=f.loc())
        else:
            k = "unreviewed:%s:%s" % (f.crate, key_c)
            used[k] = used.get(k, 0) + 1
            R.violated("R19-a", "unsafe:%s#%d" % (k, used[k]), "unreviewed unsafe operation `%s` in %s: it matches none of the listed ownership arguments (free of the "
                       "alloc_string buffer in the `free_string` export; free of the recorded source buffers reachable only from Drop for Task; "
                       "copy-out of a host buffer)" % (c, where), loc=f.loc())
    R.floor("R19-a", "user-written unsafe blocks", len(blocks), 4)
    R.floor("R19-a", "listed unsafe operations", n_listed, 5)
    # the inventory sees every raw-parts reconstruction of the workspace (none hides in a macro expansion)
    users = sorted(set(f.path for f, c, n in P.ext_callers(lambda p: "from_raw_parts" in p) if "::tests" not in f.path))
    seen = {f.path for f, kind, c, x in ops if "from_raw_parts" in c}
    R.check("R19-a", "raw-parts-users", set(users) <= seen, "every raw-parts reconstruction is in the inventory",
            "raw-parts reconstruction outside the inventoried unsafe blocks: %s" % sorted(set(users) - seen))


# ---------------------------------------------------------------------------------------------------------------- R19-b
def _component_of_local(f, lid):
    """position of a local inside a 3-tuple pattern, or the field name it is bound to in a struct pattern (directly: the
    enclosing `Some(..)` of a desugared loop does not count)"""
    def direct(p):
        while p.get("k") in ("Ref", "Deref", "Box") and "p" in p:
            p = p["p"]
        return p.get("k") == "Binding" and p.get("local") == lid
    for x in f.walk():
        if x.get("k") == "Tuple" and "ps" in x and len(x["ps"]) == 3:
            for j, p in enumerate(x["ps"]):
                if direct(p):
                    return j
        if x.get("k") == "Struct" and "rest" in x:
            for fl in x["fields"]:
                if direct(fl["p"]):
                    return int(fl["name"]) if str(fl["name"]).isdigit() else fl["name"]
    return None


def _strip(e):
    while e.get("k") in ("AddrOf", "DropTemps", "Use", "Cast", "Unary") and "e" in e:
        e = e["e"]
    return e


def r19b(P, R):
    ld = Loader(P)
    if ld.drop_list is None:
        raise AnchorMissing(ld.drop_list_missing)
    T, reg, drop, dl = ld.task.path, ld.reg, ld.drop, ld.drop_list
    # who modifies the drop list: only registration and Drop (and what they delegate to)
    mutators = set()
    for f in P.fns.values():
        if not _live(f) or f.crate != LC:
            continue
        for c in f.walk():
            if c.get("k") == "MethodCall" and c["method"] in (ADDERS | CONSUMERS | GROW) and any(
                    y.get("k") == "Field" and y.get("field") == dl and norm(y.get("adt")) == T for y in subnodes(c["recv"])):
                mutators.add(f.path)
    stray = sorted(p for p in mutators if not only_via(P, p, {reg.path, drop.path}))
    R.check("R19-b", "drop-list-owners", not stray, "%s is modified only by register_file and Drop (and their helpers)" % dl, "%s is also modified by %s" % (dl, stray))
    regi = inlined(P, reg)
    pushes = [c for c in regi.walk() if c.get("k") == "MethodCall" and c["method"] in ADDERS and c["recv"].get("k") == "Field" and c["recv"]["field"] == dl
              and norm(c["recv"].get("adt")) == T]
    R.check("R19-b", "push-once", len(pushes) == 1, "each registered source is recorded once", "register_file records %d entries in %s" % (len(pushes), dl), loc=reg.loc())
    # what is recorded: component -> String accessor (tuple index or field name), all taken from the same String
    record = None
    for g in scope_fns(P, reg):
        for n in g.walk():
            comps = None
            if n.get("k") == "Tup" and len(n.get("es", [])) == 3:
                comps = list(enumerate(n["es"]))
            elif n.get("k") == "Struct" and "rest" not in n and ld.record_adt is not None and norm(n.get("adt") or "") == ld.record_adt.path:
                comps = [(fl["name"], fl["e"]) for fl in n.get("fields", []) if "e" in fl]
            if not comps or len(comps) != 3:
                continue
            es = [_strip(e) for _, e in comps]
            if all(e.get("k") == "MethodCall" and e["method"] in ("as_mut_ptr", "as_ptr", "len", "capacity") and peel_ty(e.get("recv_ty", "")) in ("alloc::string::String", "str") for e in es) \
                    and any(peel_ty(e.get("recv_ty", "")) == "alloc::string::String" for e in es):
                bases = {(_strip(e["recv"]).get("local"),) for e in es}
                record = ({k: e["method"] for (k, _), e in zip(comps, es)}, len(bases) == 1, g)
    # how it is freed: argument i of String::from_raw_parts <- component
    frees = [(f, x) for f, kind, c, x in unsafe_ops(P) if c == STR_FRP and f.crate == LC and only_via(P, f.path, ld.owner_drops)]
    R.floor("R19-b", "reconstruction of the recorded buffers (reachable only from Drop)", len(frees), 1)
    if record is None:
        R.undecided("R19-b", "triple-shape", "no (pointer, length, capacity) record built from one String found in register_file or its helpers", loc=reg.loc())
    else:
        methods, same, g = record
        if not same:
            R.violated("R19-b", "triple-shape", "the recorded parts are taken from different Strings", loc=g.loc())
        elif sorted(methods.values()) != ["as_mut_ptr", "capacity", "len"]:
            R.violated("R19-b", "triple-shape", "%s records %s instead of (as_mut_ptr, len, capacity) of the source" % (g.path, sorted(methods.values())), loc=g.loc())
        else:
            R.holds("R19-b", "triple-shape", "pointer, length and capacity are taken from the same String", loc=g.loc())
        for f, x in frees:
            got = []
            for a in x["args"]:
                a = _strip(a)
                if a.get("k") == "Field":
                    comp = a.get("field")
                    comp = int(comp) if str(comp).isdigit() else comp
                elif a.get("k") == "Path" and "local" in a:
                    comp = _component_of_local(f, a["local"])
                else:
                    comp = None
                got.append(methods.get(comp) if comp is not None else None)
            want = ["as_mut_ptr", "len", "capacity"]
            if got == want:
                R.holds("R19-b", "free-order", "from_raw_parts(ptr, len, capacity) with the recorded components in order", loc=f.loc())
            elif None in got:
                R.undecided("R19-b", "free-order", "the arguments of from_raw_parts in %s cannot be related to the recorded components (%s)" % (f.path, got), loc=f.loc())
            else:
                R.violated("R19-b", "free-order", "%s rebuilds the String with (%s) where (pointer, length, capacity) is required" % (f.path, ", ".join(got)), loc=f.loc())
    # Drop consumes the list: each entry is freed exactly once
    dropi = inlined(P, drop)
    cons = [c for c in dropi.walk() if c.get("k") == "MethodCall" and c["method"] in CONSUMERS and any(
        y.get("k") == "Field" and y.get("field") == dl for y in subnodes(c["recv"]))] + \
           [c for c in dropi.walk() if c.get("k") == "Call" and (call_name(c) or "").endswith(("mem::take", "mem::replace")) and any(
               y.get("k") == "Field" and y.get("field") == dl for y in subnodes(c))]
    raii = ld.record_adt is not None and any(P.fns[d_].self_adt == ld.record_adt.path for d_ in ld.owner_drops)
    if len(cons) == 1:
        R.holds("R19-b", "drain-once", "Drop consumes the list (`%s`): each entry is freed once" % (cons[0].get("method") or "take"), loc=drop.loc())
    elif raii and not cons:
        R.holds("R19-b", "drain-once", "each entry of %s frees its own buffer in its Drop: once, when the list is cleared or dropped with the task" % dl, loc=drop.loc())
    else:
        R.undecided("R19-b", "drain-once", "Drop does not consume %s through exactly one drain/take/pop (%d found)" % (dl, len(cons)), loc=drop.loc())
    # EXACT-CAPACITY INVARIANT: into_boxed_str() after recording is safe only if capacity == len for every String reaching register_file
    copies = [f for f, kind, c, x in unsafe_ops(P) if c == SLICE_FRP and f.crate == LC]
    if len(copies) != 1:
        raise AnchorMissing("the function that builds ABI strings from host buffers (slice::from_raw_parts in the loader crate) is not unique: %s" % [f.path for f in copies])
    rsp = copies[0]
    pvr = Prov(rsp)
    tail = rsp.body["b"].get("tail") if rsp.body.get("k") == "BlockExpr" else None
    rets = [tail] if tail else []
    rets += [n["e"] for n in rsp.walk() if n.get("k") == "Ret" and "e" in n]
    a = set()
    for e in rets:
        a |= pvr.atoms(e)
    if has_call(a, "alloc::string::String::from_utf8") and has_call(a, "to_vec"):
        R.holds("R19-b", "exact-capacity:source-construction", "ABI strings are built as String::from_utf8(<slice>.to_vec()) (capacity == len)", loc=rsp.loc())
    elif any(x[0] == "call" and x[1].split("::")[-1] in ("with_capacity", "push_str", "format", "from_utf8_lossy", "to_string", "repeat", "collect") for x in a):
        R.violated("R19-b", "exact-capacity:source-construction", "%s no longer builds its result with an exact-capacity allocation; register_file would free with a "
                   "stale capacity/pointer" % rsp.path, loc=rsp.loc())
    else:
        R.undecided("R19-b", "exact-capacity:source-construction", "%s builds its String in a way whose capacity this rule does not know" % rsp.path, loc=rsp.loc())
    # no growing operation on the source between the ABI and register_file (moves only)
    entries = [f for f in ld.abi.values() if reaches(P, f, reg.path)]
    R.floor("R19-b", "ABI entry points that register a source", len(entries), 2)
    chain = {}
    for e in entries:
        for p in P.reachable([e]):
            f = P.fns[p]
            if f.crate == LC and _live(f) and (p == reg.path or reaches(P, f, reg.path)):
                chain[p] = f
    for f in scope_fns(P, reg, depth=1):
        if any(peel_ty(t) == "alloc::string::String" for t in f.sig_inputs):
            chain[f.path] = f
    for p in sorted(chain):
        f = chain[p]
        pvf = Prov(f)
        string_params = {p_.get("local") for p_, t_ in zip(f.params, f.sig_inputs) if peel_ty(t_) == "alloc::string::String"}
        grows = []

        def is_source(base):
            if base.get("k") != "Path" or "local" not in base:
                return False
            return base["local"] in string_params or has_call(pvf.atoms(base), rsp.path)
        for c in f.walk():
            if c.get("k") == "MethodCall" and c["method"] in GROW and peel_ty(c.get("recv_ty", "")) == "alloc::string::String":
                base = c["recv"]
                while base.get("k") in ("AddrOf", "Unary", "Field"):
                    base = base["e"]
                if is_source(base):
                    grows.append(c["method"])
            if c.get("k") == "AssignOp" and is_source(c["l"]):
                grows.append("+=")
        # ... and what is handed on towards register_file is that same String, moved: not a new String computed from it
        # (`replace`, `format!`, `to_owned`, a normalising helper), whose capacity is whatever the allocator gave
        rebuilt = []
        for c in f.walk():
            if c.get("k") in ("Call", "MethodCall") and (call_name(c) or "") in chain and call_name(c) != f.path:
                args = ([c["recv"]] if c.get("k") == "MethodCall" else []) + c["args"]
                for a_ in args:
                    if peel_ty(a_.get("t", "") or "") != "alloc::string::String" or a_.get("t", "").startswith("&"):
                        continue
                    made = sorted({x[1] for x in pvf.atoms(a_) if x[0] == "call" and x[1] != rsp.path
                                   and x[1].split("::")[-1] not in ("into", "from", "take", "branch", "from_residual", "unwrap", "expect")})
                    if made:
                        rebuilt.append("%s <- %s" % (short(call_name(c)), ", ".join(short(m) for m in made[:3])))
        R.check("R19-b", "exact-capacity:moved@" + short(f.path), not rebuilt, "the source String is passed on as received",
                "%s hands a String towards register_file that was produced by a call (%s) rather than the one received from the ABI: its capacity may exceed "
                "its length, so into_boxed_str() reallocates after (ptr, len, capacity) were recorded and Drop frees with the wrong size/pointer"
                % (f.path, "; ".join(rebuilt)), loc=f.loc())
        R.check("R19-b", "exact-capacity:no-growth@" + short(f.path), not grows, "the source String is only moved",
                "%s applies %s to the source String before it is registered: capacity may exceed len, so into_boxed_str() reallocates "
                "and the recorded (ptr, len, capacity) is stale when the task is dropped" % (f.path, grows), loc=f.loc())
    # ABI wrappers obtain the source from the exact-capacity constructor
    for f0 in sorted(entries, key=lambda g: g.path):
        f = inlined(P, f0, pred=lambda g: g.path not in chain or g.path in ld.abi)
        pvf = Prov(f)
        calls = [c for c in f.walk() if c.get("k") in ("Call", "MethodCall") and (call_name(c) or "") in chain and call_name(c) != f0.path]
        srcs = [a_ for c in calls for a_ in (([c["recv"]] if c.get("k") == "MethodCall" else []) + c["args"]) if peel_ty(a_.get("t", "")) == "alloc::string::String"]
        key = "exact-capacity:abi-source@" + f0.name
        if not srcs:
            R.undecided("R19-b", key, "no String argument handed to the loader found in %s" % f0.path, loc=f0.loc())
            continue
        bad = [x for s in srcs for x in pvf.atoms(s) if x[0] == "call" and x[1].split("::")[-1] in ("with_capacity", "format", "to_owned", "to_string", "clone", "repeat")]
        if all(has_call(pvf.atoms(s), rsp.path) for s in srcs) and not bad:
            R.holds("R19-b", key, "the source handed to the loader comes straight from %s" % short(rsp.path), loc=f0.loc())
        else:
            R.violated("R19-b", key, "%s passes a source String that is not the direct result of %s%s" % (f0.path, short(rsp.path), (" (%s)" % sorted(set(b[1] for b in bad))) if bad else ""), loc=f0.loc())
    # record-before-box ordering is the fragile part: report it as an observation
    R.note("observation (not a violation): register_file records (ptr,len,capacity) before into_boxed_str(); safe only under the "
           "exact-capacity invariant checked above")


# ---------------------------------------------------------------------------------------------------------------- R19-c
def r19c(P, R):
    ld = Loader(P)
    drop = ld.drop
    mq = MirQ(P.mir[drop.path])
    freeing = {p for p, f in P.fns.items() if f.crate == LC and _live(f) and any(c == STR_FRP for c in P.callees_of(f)[1])}
    freeing |= {p for p, f in P.fns.items() if f.crate == LC and _live(f) and p != drop.path and P.reachable([f]) & freeing}
    frees = mq.calls_to(lambda p: p == STR_FRP or p in freeing)
    if not frees:
        # the buffers are freed by the Drop of an object the task owns (an arena field): that runs after Task::drop returns, field by
        # field in declaration order.  The documents are gone by then iff Task::drop clears them on every path, or their field is
        # declared before the owner of the buffers.
        sub_drops = [P.fns[p] for p in sorted(ld.owner_drops) if p != drop.path and any(
            k == "raw" and ("from_raw" in c) for f_, k, c, x in unsafe_ops(P) if f_.path == p or (f_.crate == LC and only_via(P, f_.path, {p})))]
        if sub_drops:
            order = ld.task.fields()
            owner_fields = [n for n, t in ld.task.field_types().items() if any(g.self_adt and g.self_adt in t for g in sub_drops)]
            clears0 = mq.calls_to(lambda p: p.endswith("HashMap::clear") or p.endswith(("mem::take", "mem::replace")))
            docs_cleared = bool(clears0) and all(any(mq.dominates(c, r) for c in clears0) for r in mq.returns()) and any(
                c.get("k") == "MethodCall" and c["method"] == "clear" and c["recv"].get("k") == "Field" and c["recv"]["field"] == ld.docs for c in drop.walk())
            declared_first = bool(owner_fields) and all(order.index(ld.docs) < order.index(n) for n in owner_fields)
            if docs_cleared or declared_first:
                R.holds("R19-c", "clear-before-free", "the buffers are freed by the Drop of `%s`, after %s" % (
                    "/".join(owner_fields) or "an owned object", ("Task::drop cleared %s on every path" % ld.docs) if docs_cleared else ("%s, declared earlier, was dropped" % ld.docs)), loc=drop.loc())
            else:
                R.violated("R19-c", "clear-before-free", "the source buffers are freed by the Drop of `%s`, which is declared before %s, and Task::drop does not clear %s on "
                           "every path: the parsed documents still borrow the freed text when they are dropped" % ("/".join(owner_fields) or "an owned object", ld.docs, ld.docs), loc=drop.loc())
            return
    R.floor("R19-c", "free sites in Drop", len(frees), 1)
    # what releases the parsed documents (they borrow the buffers): clear() of the documents map, or taking/replacing it
    clearing = {p for p, f in P.fns.items() if f.crate == LC and _live(f) and p != drop.path and any(
        c.get("k") == "MethodCall" and c["method"] == "clear" and c["recv"].get("k") == "Field" and c["recv"]["field"] == ld.docs for c in f.walk())}
    clears = mq.calls_to(lambda p: p.endswith("HashMap::clear") or p.endswith("hash::map::HashMap::clear") or p in clearing
                         or p.endswith(("mem::take", "mem::replace")))
    scope = scope_fns(P, drop)
    touches_docs = any((ld.task.path, ld.docs) in field_reads(g) for g in scope)
    if not frees:
        return
    if clears and all(any(mq.dominates(c, fr) for c in clears) for fr in frees):
        R.holds("R19-c", "clear-before-free", "releasing %s dominates every reconstruction of a source buffer in Drop (documents borrow the buffers)" % ld.docs, loc=drop.loc())
    elif clears or not touches_docs:
        R.violated("R19-c", "clear-before-free", "Drop for Task frees the source buffers on a path where %s has not been cleared: the parsed documents "
                   "still borrow the freed text" % ld.docs, loc=drop.loc())
    else:
        R.undecided("R19-c", "clear-before-free", "Drop touches %s, but not through a clear()/take this rule recognises" % ld.docs, loc=drop.loc())
    # and what is cleared is the documents map
    cl = [c for g in scope for c in g.walk() if c.get("k") == "MethodCall" and c["method"] == "clear"] + \
         [c for g in scope for c in g.walk() if c.get("k") == "Call" and (call_name(c) or "").endswith(("mem::take", "mem::replace"))]
    on_docs = [c for c in cl if any(y.get("k") == "Field" and y.get("field") == ld.docs for y in subnodes(c))]
    if on_docs:
        R.holds("R19-c", "clear-target", "what is cleared is %s" % ld.docs, loc=drop.loc())
    elif cl:
        R.violated("R19-c", "clear-target", "Drop clears something other than %s" % ld.docs, loc=drop.loc())
    else:
        R.undecided("R19-c", "clear-target", "no clear()/take in Drop", loc=drop.loc())


# ---------------------------------------------------------------------------------------------------------------- R19-d
WHOLE_TABLE = {"iter", "iter_mut", "values", "values_mut", "keys", "into_iter", "drain", "retain", "clear", "into_values", "into_keys", "extract_if", "len", "is_empty"}


def keyed_accessor(P, ld, path, _depth=0):
    """a method of the task table that addresses one task by an id it is given: it takes an id, and neither it nor the table
    methods it delegates to walk, count or clear the whole map"""
    f = P.fns.get(path)
    if f is None or f.self_adt != ld.tasks.path or not any(t == "usize" for t in f.sig_inputs) or _depth > 3:
        return False
    for c in f.walk():
        if c.get("k") == "MethodCall":
            if c["method"] in WHOLE_TABLE and any(w in norm(c.get("recv_ty", "") or "") for w in ("HashMap", "BTreeMap", "Vec<")):
                return False
            cn = call_name(c) or ""
            g = P.fns.get(cn)
            if g is not None and g.self_adt == ld.tasks.path and cn != path and not keyed_accessor(P, ld, cn, _depth + 1):
                return False
        if c.get("k") == "Match" and c.get("src") == "ForLoopDesugar":
            return False
    return True


def r19d(P, R):
    """total task lookup: unknown/freed ids give an error result, never a trap"""
    ld = Loader(P)
    T, TS = ld.task.path, ld.tasks.path
    # the accessors that hand out a reference to one task for an id (get_task/get_task_mut, or whatever they are called)
    getters = {g.path for g in P.fns.values() if _live(g) and g.self_adt == TS and g.kind == "AssocFn" and keyed_accessor(P, ld, g.path)
               and any((g.sig_output or "").replace("&mut ", "&").find("&" + T + e_) >= 0 for e_ in (">", ",", ")", " "))}
    if not getters:
        raise AnchorMissing("no method of `%s` hands out a task for an id" % TS)
    for name in ("get_required_files", "load_file", "emit_js"):
        f0 = ld.logic(name)
        f = inlined(P, f0, pred=lambda g: g.path not in getters)
        pv = Prov(f)
        gets = [c for c in f.walk() if c.get("k") == "MethodCall" and (call_name(c) or "") in getters]
        id_params = {pv.params.get(p.get("local")) for p, t in zip(f.params, f.sig_inputs) if p.get("k") == "Binding" and t == "usize"}
        if len(gets) != 1:
            R.undecided("R19-d", "lookup:" + name, "%s resolves its task through %d accessor calls" % (f0.path, len(gets)), loc=f0.loc())
            continue
        R.check("R19-d", "lookup:" + name, any(a[0] == "param" and a[1] in id_params for a in pv.atoms(gets[0]["args"][0])),
                "task resolved through the Option-returning accessor by the given id",
                "%s does not look its task up by the id it is given" % f0.path, loc=f0.loc())
        # the Option is turned into Err(TaskNotFound); it is never unwrapped
        acc = f.nodes()
        gi = next(i for i, (x, _) in enumerate(acc) if x is gets[0])
        par = acc[acc[gi][1]][0] if acc[gi][1] >= 0 else {}
        trap = par.get("k") == "MethodCall" and par.get("recv") is gets[0] and par["method"] in ("unwrap", "expect", "unwrap_unchecked")
        def mentions_not_found(g):
            return any(norm(x.get("def", "") or x.get("variant", "") or "").endswith("LoaderError::TaskNotFound") for x in g.walk() if x.get("k") in ("Path", "Struct"))
        # the error is made here, or by the accessor itself when that one already returns a Result (then `?` carries it)
        callee = P.fns.get(call_name(gets[0]) or "")
        tn = mentions_not_found(f) or (callee is not None and (callee.sig_output or "").startswith("core::result::Result<") and mentions_not_found(inlined(P, callee)))
        if trap:
            R.violated("R19-d", "not-found:" + name, "%s unwraps the task lookup: an unknown or freed id traps instead of giving an error result" % f0.path, loc=f0.loc())
        elif not tn:
            R.violated("R19-d", "not-found:" + name, "%s does not map a missing task to Err(TaskNotFound) (unwrap/expect on an unknown id would trap)" % f0.path, loc=f0.loc())
        else:
            R.holds("R19-d", "not-found:" + name, "None => Err(TaskNotFound)", loc=f0.loc())
        # other uses of `tasks`: none
        tasks_local = f0.params[0].get("local") if f0.params else None
        uses = [call_name(c) or c["method"] for c in f0.walk() if c.get("k") == "MethodCall" and c["recv"].get("k") == "Path" and c["recv"].get("local") == tasks_local]
        wide = sorted(u for u in set(uses) if u not in getters and not keyed_accessor(P, ld, u))
        R.check("R19-d", "isolation:" + name, not wide, "only the addressed task is touched (the table is used through accessors keyed by the task id)",
                "%s also uses the task table through %s, which is not a lookup of one task by its id" % (f0.path, wide), loc=f0.loc())
    # the accessors are plain map lookups keyed by the id
    removers = {g.path for g in P.fns.values() if _live(g) and g.self_adt == TS and g.kind == "AssocFn" and keyed_accessor(P, ld, g.path)
                and g.path not in getters and T in (g.sig_output or "") and any(t == "usize" for t in g.sig_inputs) and not any(peel_ty(t).split("<")[0] == T for t in g.sig_inputs)}
    for path_ in sorted(getters | removers):
        f = P.fns[path_]
        if any((call_name(c) or "") in getters | removers for c in f.walk() if c.get("k") == "MethodCall"):
            continue   # a wrapper over another accessor (require_task over get_task): judged there
        acc_ = f.name
        m = "get/get_mut/remove"
        pv = Prov(f)
        cs = [c for c in f.walk() if c.get("k") == "MethodCall" and c["method"] in ("get", "get_mut", "remove") and "HashMap" in norm(c.get("recv_ty", ""))]
        traps = [x["method"] for x in f.walk() if x.get("k") == "MethodCall" and x["method"] in ("unwrap", "expect")] + \
                [1 for x in f.walk() if x.get("k") == "Index"]
        id_params = {pv.params.get(p.get("local")) for p, t in zip(f.params, f.sig_inputs) if p.get("k") == "Binding" and t == "usize"}
        if traps:
            R.violated("R19-d", "accessor:" + acc_, "%s is not a total lookup by task id (it can trap: %s)" % (f.path, traps), loc=f.loc())
        elif len(cs) == 1 and any(a[0] == "param" and a[1] in id_params for a in pv.atoms(cs[0]["args"][0])):
            R.holds("R19-d", "accessor:" + acc_, "Option-returning lookup by id", loc=f.loc())
        else:
            R.undecided("R19-d", "accessor:" + acc_, "%s is not a single HashMap::%s by the id parameter" % (f.path, m), loc=f.loc())
    # ids: monotonically increasing counter, never derived from the table's size
    add = ld.method(ld.tasks, "add_task")
    pv = Prov(add)

    def counter_write(n):
        if n.get("k") in ("Assign", "AssignOp") and n["l"].get("k") == "Field" and norm(n["l"].get("adt")) == TS and n["l"]["field"] in ld.counters:
            return n["l"]["field"]
        return None
    incs = [n for n in add.walk() if counter_write(n) and (n.get("op") == "+=" or any(
        (y.get("k") == "Binary" and y.get("op") == "+") or (y.get("k") == "MethodCall" and y.get("method") in ("checked_add", "wrapping_add", "saturating_add"))
        for y in subnodes(n["r"])))]
    tail = add.body["b"].get("tail") if add.body.get("k") == "BlockExpr" else None
    rets = ([tail] if tail else []) + [n["e"] for n in add.walk() if n.get("k") == "Ret" and "e" in n]
    ta = set()
    for e in rets:
        ta |= pv.atoms(e)
    from_len = any(x[0] == "call" and x[1].endswith("::len") for x in ta)
    from_counter = any(has_field(ta, TS, c) for c in ld.counters)
    # the id must come from the counter alone: any other field of the table feeding it (a free list, the map) recycles ids
    recycled = sorted({x[2] for x in ta if x[0] == "field" and x[1] == TS and x[2] not in ld.counters})
    if recycled and from_counter and not from_len:
        R.violated("R19-d", "ids-monotonic", "add_task can issue an id taken from %s instead of the counter: the id of a freed (or never issued) task becomes live "
                   "again, so calls on freed ids stop failing and two tasks can end up under one id" % ", ".join("Tasks." + r for r in recycled), loc=add.loc())
    elif from_len or not ld.counters or not from_counter:
        R.violated("R19-d", "ids-monotonic", "add_task does not issue ids from a monotonically increasing counter (an id could be reused while live or after free)%s"
                   % (": the id is computed from the table's size" if from_len else ""), loc=add.loc())
    elif len(incs) == 1:
        R.holds("R19-d", "ids-monotonic", "ids come from a counter that only increases", loc=add.loc())
    else:
        R.undecided("R19-d", "ids-monotonic", "the id derives from a counter field, advanced in a shape this rule does not read (%d increments)" % len(incs), loc=add.loc())
    writers = sorted(f.path for f in P.fns.values() if _live(f) and f.crate == LC and any(counter_write(n) for n in f.walk()))
    stray = [w for w in writers if not only_via(P, w, {add.path})]
    if not ld.counters:
        R.violated("R19-d", "ids-single-writer", "the task table has no id counter any more: ids are not issued from a monotonically increasing counter")
    else:
        R.check("R19-d", "ids-single-writer", not stray and bool(writers), "only add_task advances the counter", "the id counter is written by %s" % (stray or "no function"))
    ins = [c for c in add.walk() if c.get("k") == "MethodCall" and c["method"] == "insert" and "HashMap" in norm(c.get("recv_ty", ""))]
    if len(ins) != 1:
        R.undecided("R19-d", "ids-insert-key", "add_task stores the task through %d insert calls" % len(ins), loc=add.loc())
    else:
        R.check("R19-d", "ids-insert-key", not has_call(pv.atoms(ins[0]["args"][0]), "::len"), "the task is stored under the issued id",
                "add_task stores the task under a key computed from the table's size", loc=add.loc())
    # emit_js: get_root_document's expect is justified by initiate_task registering the root before add_task
    it = ld.logic("initiate_task")
    mq = MirQ(P.mir[it.path])
    reg = ld.reg

    def role(p, want, avoid):
        if p == want:
            return True
        g = P.fns.get(p)
        return g is not None and g.crate == LC and _live(g) and p != it.path and want in P.reachable([g]) and avoid not in P.reachable([g])
    regs = mq.calls_to(lambda p: role(p, reg.path, add.path))
    adds = mq.calls_to(lambda p: role(p, add.path, reg.path))
    if not adds or not regs:
        both = mq.calls_to(lambda p: p in P.fns and P.fns[p].crate == LC and {reg.path, add.path} <= P.reachable([P.fns[p]]))
        if both:
            R.undecided("R19-d", "root-registered-before-add", "initiate_task delegates both registration and add_task to %s" % sorted(set(p for _, p, _ in mq.calls() if p in P.fns and {reg.path, add.path} <= P.reachable([P.fns[p]]))), loc=it.loc())
        else:
            R.violated("R19-d", "root-registered-before-add", "initiate_task does not both register the root file and add the task (register calls: %d, add calls: %d): "
                       "emit_js's `Root file should be present` expect becomes reachable" % (len(regs), len(adds)), loc=it.loc())
    else:
        ok = all(any(mq.dominates(r, a) for r in regs) for a in adds)
        R.check("R19-d", "root-registered-before-add", ok, "register_file(root) dominates add_task: every live task has its root document",
                "a task can be added without its root file registered: emit_js's `Root file should be present` expect becomes reachable", loc=it.loc())
    iti = inlined(P, it, pred=lambda g: g.path not in (reg.path, add.path) and (ld.new is None or g.path != ld.new.path))
    pvi = Prov(iti)
    news = [c for c in iti.walk() if c.get("k") == "Call" and ld.new is not None and (call_name(c) or "") == ld.new.path]
    regc = [c for c in iti.walk() if c.get("k") == "MethodCall" and (call_name(c) or "") == reg.path]
    if not news or not regc:
        R.undecided("R19-d", "root-name-agrees", "initiate_task does not call Task::new and register_file in a shape this rule reads", loc=it.loc())
    else:
        a_new = {x[1] for x in pvi.atoms(news[0]["args"][0]) if x[0] == "param"}
        a_reg = {x[1] for x in pvi.atoms(regc[0]["args"][0]) if x[0] == "param"}
        R.check("R19-d", "root-name-agrees", bool(a_new & a_reg), "the task's root name and the registered root file are the same value",
                "initiate_task registers the root source under a different name (from %s) than the task's root file name (from %s)" % (sorted(a_reg), sorted(a_new)), loc=it.loc())


# ---------------------------------------------------------------------------------------------------------------- R19-e
def r19e(P, R):
    """thread-local cells are touched only by the ABI wrappers (and helpers private to them); task logic takes the table as a
    parameter and touches no static"""
    ld = Loader(P)
    T, TS = ld.task.path, ld.tasks.path
    from templates import global_state_holders
    cells = sorted(h for h, (t, _) in global_state_holders(P).items() if h.startswith(L) and "thread_local" in t)
    abi = {f.path for f in ld.abi.values()}
    users = {}
    for f in P.fns.values():
        if f.derived or "::tests" in f.path or not f.path.startswith(L) or f.kind not in ("Fn", "AssocFn", "Closure"):
            continue
        for n in f.walk():
            if n.get("k") == "Path" and norm(n.get("def", "")) in cells:
                users.setdefault(f.path, set()).add(norm(n["def"]))
    # task logic: whatever is reachable from a function that receives the table or a task explicitly
    explicit = [f for f in P.fns.values() if f.crate == LC and _live(f) and any(peel_ty(t).split("<")[0] in (T, TS) for t in f.sig_inputs)]
    logic = P.reachable(explicit)
    for p, cs in sorted(users.items()):
        ok = p in abi or only_via(P, p, abi)
        R.check("R19-e", "cell-user:" + short(p), ok and p not in logic, "ABI wrapper (or a helper reachable only from the ABI wrappers)",
                "%s touches thread-local %s; only the ABI wrappers and their private helpers may%s" % (
                    p, sorted(cs), " (it is task logic: it is reachable from functions that take the task table as a parameter)" if p in logic else ""), loc=P.fns[p].loc())
    R.floor("R19-e", "thread-local cells in use", len(set().union(*users.values())) if users else 0, 3)
    R.floor("R19-e", "ABI exports of the loader", len(abi), 10)
    # no nested borrow of the same cell (seen through helpers that open a cell around a closure they are given)
    def opens(n, cell):
        """regions executed while `cell` is being accessed, if node n starts such an access"""
        if n.get("k") == "MethodCall" and n["method"] in ("with", "with_borrow", "with_borrow_mut") and n["recv"].get("k") == "Path" and norm(n["recv"].get("def", "")) == cell:
            return list(n["args"])
        if n.get("k") in ("Call", "MethodCall") and "inl" in n and any(opens(y, cell) is not None for y in _inl_nodes(n)):
            return [a for a in n["args"] if a.get("k") == "Closure"]
        return None

    def _inl_nodes(n):
        return [y for y in subnodes(n["inl"]["body"])]
    for p in sorted(users):
        f = inlined(P, P.fns[p], depth=2)
        for cell in cells:
            nested, n_open = False, 0
            for n in f.walk():
                regions = opens(n, cell)
                if regions is None:
                    continue
                n_open += 1
                for r in regions:
                    for y in subnodes(r):
                        if y is not n and opens(y, cell) is not None:
                            nested = True
            if n_open:
                R.check("R19-e", "no-nested-borrow:%s:%s" % (short(p), cell.split("::")[-1]), not nested,
                        "no nested access to the same cell", "%s nests two accesses to %s (RefCell double borrow panics)" % (p, cell), loc=P.fns[p].loc())
    # get_required_files resolves imports relative to the importing file (same rule as the import resolver)
    g0 = ld.logic("get_required_files")
    g = inlined(P, g0)

    def resolutions(h):
        return [c for c in h.walk() if c.get("k") == "Call" and (call_name(c) or "").endswith("resolve_relative_path")]
    if not resolutions(g):
        # the computation may be handed over as a function value (`.map(Task::unresolved_imports)`): analyse that function
        alt = [h for h in scope_fns(P, g0) if h.path != g0.path and resolutions(h)]
        if len(alt) == 1:
            g = inlined(P, alt[0])
    pv = Prov(g)
    rr = resolutions(g)
    R.floor("R19-e", "path resolutions in get_required_files", len(rr), 1)
    for c in rr:
        a0 = pv.atoms(c["args"][0])
        from_loaded = has_call(a0, "Task::iter_loaded_files") or has_field(a0, T, ld.docs)
        from_root = has_field(a0, T, ld.root)
        if from_loaded and not from_root:
            R.holds("R19-e", "required-relative-to-importer", "required files are resolved relative to the file containing the #import", loc=g0.loc())
        else:
            R.violated("R19-e", "required-relative-to-importer", "get_required_files resolves import paths against %s, not the importing file (emit_js resolves relative to the "
                       "importer): the files asked for are not the ones emit needs" % ("the task's root file name" if from_root else "something other than the loaded files"), loc=g0.loc())
    # required = unresolved: skip test looks the resolved path up among the task's files
    lookups = [c for c in g.walk() if c.get("k") == "MethodCall" and ((call_name(c) or "") in (T + "::contains_file", T + "::get_file")
                                                                      or (c["method"] in ("contains_key", "get") and c["recv"].get("k") == "Field" and c["recv"]["field"] == ld.docs))]
    if not lookups:
        R.undecided("R19-e", "required-skips-loaded", "get_required_files does not test membership among the task's files in a shape this rule reads", loc=g0.loc())
    else:
        R.check("R19-e", "required-skips-loaded", any(has_call(pv.atoms(c["args"][0]), "resolve_relative_path") for c in lookups if c["args"]),
                "already supplied files are not asked for again", "get_required_files does not skip files the task already has (the membership test is not on the resolved path)", loc=g0.loc())
    # every import is judged by its *resolved target*: a condition that drops an import (skip in a loop, `filter` in a chain,
    # `if` around the push) and reads the import's specifier without resolving it against the importing file decides by the wrong key
    import_adts = set()
    for ap, a in P.adts.items():
        if a.kind == "Struct" and ap.split("::")[-1].endswith("Extension"):
            for t in a.field_types().values():
                for bp in P.adts:
                    if bp in t and bp.split("::")[-1] == "Import":
                        import_adts.add(bp)
    guards = []
    for i, (x, _) in enumerate(g.nodes()):
        if x.get("k") == "If" and x["cond"].get("k") != "LetExpr":
            skips = any(y.get("k") in ("Continue", "Break") for b in (x.get("then"), x.get("else")) if b is not None for y in subnodes(b))
            pushes = any(y.get("k") == "MethodCall" and y["method"] in ("push", "insert", "push_back") and "PathBuf" in norm(y.get("recv_ty", "") or "")
                         for b in (x.get("then"), x.get("else")) if b is not None for y in subnodes(b))
            if skips or pushes:
                guards.append(("condition", x["cond"]))
        elif x.get("k") == "MethodCall" and x["method"] in ("filter", "take_while", "skip_while", "filter_map", "retain") and x["args"] and x["args"][0].get("k") == "Closure":
            guards.append(("`%s` closure" % x["method"], x["args"][0]["body"]))
    blind = []
    for what, e in guards:
        a = pv.atoms(e)
        reads_import = any(x[0] == "field" and x[1] in import_adts for x in a)
        if reads_import and not has_call(a, "resolve_relative_path"):
            blind.append(what)
    if blind:
        R.violated("R19-e", "required-selected-by-target", "get_required_files drops imports by a %s on the import specifier itself, not on the path it resolves to "
                   "relative to the importing file: the same specifier written in files of different directories names different targets, so a needed "
                   "file is never asked for" % " / ".join(sorted(set(blind))), loc=g0.loc())
    elif import_adts:
        R.holds("R19-e", "required-selected-by-target", "imports are selected only by their resolved target (%d selecting conditions)" % len(guards), loc=g0.loc())
    else:
        R.undecided("R19-e", "required-selected-by-target", "the element type of the document's imports cannot be identified", loc=g0.loc())
    # ... and the answer is a pure function of the files supplied: the query does not modify the task, and nothing is removed
    # from the list once computed
    muts = []
    for c in g.walk():
        if c.get("k") == "MethodCall":
            cn = call_name(c) or ""
            if cn.startswith(T + "::") and cn in P.fns and (P.fns[cn].sig_inputs or [""])[0].startswith("&mut"):
                muts.append(short(cn))
    trimmed = [c["method"] for c in g.walk() if c.get("k") == "MethodCall" and c["method"] in (LOSSY_OR_REORDERING | {"retain", "retain_mut", "drain", "truncate", "pop", "remove", "clear"})
               and "PathBuf" in norm(c.get("recv_ty", "")) and c["method"] not in ("filter", "filter_map", "insert")]
    R.check("R19-e", "required-is-a-query", not muts and not trimmed, "get_required_files only reads the task and only appends to its answer",
            "get_required_files %s: the files a task asks for depend on how often it was asked, not only on the files supplied (a file "
            "reported once and never supplied disappears from later answers)"
            % ("; ".join(x for x in (("calls mutating Task methods %s" % muts) if muts else "", ("post-filters its answer with %s" % trimmed) if trimmed else "") if x)), loc=g0.loc())
    # emit_js prints the document of *this* task with the config passed in
    e0 = ld.logic("emit_js")
    e = inlined(P, e0, depth=1)
    pve = Prov(e)
    ri = [c for c in e.walk() if c.get("k") == "Call" and (call_name(c) or "").endswith("resolve_operation_imports")]
    if not ri:
        R.undecided("R19-e", "emit-own-root", "emit_js does not call resolve_operation_imports in a shape this rule reads", loc=e0.loc())
    else:
        a = pve.atoms(ri[0]["args"][0])
        ok = has_field(a, T, ld.root) and (has_call(a, "Task::get_root_document") or has_field(a, T, ld.docs))
        R.check("R19-e", "emit-own-root", ok, "emit resolves imports from the task's own root document and root path",
                "emit_js does not start from the task's own root document/path", loc=e0.loc())


def r19pc(P, R):
    from facts import Program
    SC = Program(harness.selfcheck_facts())
    us = [(f.name, cs) for f, n, cs, d in user_unsafe(SC)]
    ok = len(us) == 1 and us[0][0] == "rebuild" and any("from_raw_parts" in c for c in us[0][1])
    R.check("R19-pc", "control:unsafe", ok, "unsafe-block control detected", "self-check: the unsafe inventory sees %s in the control crate" % us)
    ops = [(f.name, c) for f, kind, c, x in unsafe_ops(SC) if kind == "raw"]
    R.check("R19-pc", "control:unsafe-op", any(n == "rebuild" and "from_raw_parts" in c for n, c in ops), "unsafe-operation control detected",
            "self-check: the unsafe-operation inventory sees %s in the control crate" % ops)


RULES = [("R19-pc", r19pc), ("R19-a", r19a), ("R19-b", r19b), ("R19-c", r19c), ("R19-d", r19d), ("R19-e", r19e)]
EXPLANATION = (
    "Ownership and totality clauses of the loader, for every call history: (R19-a) the unsafe operations of the workspace (raw-memory "
    "APIs, raw derefs, foreign calls) are exactly the listed ones, each identified by its callee and ownership argument (who can reach "
    "it, what it is given), not by the function it is written in; (R19-b) the drop list of Task (found by type) is pushed once per "
    "registration with (ptr,len,capacity) of the same String - as a tuple or a record struct - and consumed once in Drop into "
    "from_raw_parts with the components in order, and the exact-capacity invariant "
    "that makes recording-before-boxing safe holds along the whole ABI path (from_utf8(to_vec) construction, moves only); (R19-c) "
    "loaded_files.clear() dominates every free in Drop (MIR dominators); (R19-d) task ids come from a counter written only by "
    "add_task, lookups are Option-returning and mapped to Err(TaskNotFound), loader functions touch only the addressed task, and "
    "register_file(root) dominates add_task; (R19-e) the thread-local cells are used only by the ABI wrappers without nested "
    "borrows, required files are resolved relative to the importing file and skip supplied ones, emit starts from the task's own "
    "root. Not decided: equivalence with a reference model over histories, sanitizer-cleanliness of executions.")
ASSUMPTIONS = ["the host (packages/loader-core) passes buffers obtained from alloc_string with the stated lengths (TypeScript, read only)",
               "std String/Vec allocation semantics: to_vec() allocates exactly len; into_boxed_str() reallocates iff capacity > len"]


def main(tier):
    return harness.run_property("C19", RULES, "other", EXPLANATION, ASSUMPTIONS, tier)
