"""C19 — Loader tasks are isolated and safe under any sequence of loader calls (ownership and totality clauses)."""
import harness
from facts import norm, call_name, short, subnodes, field_reads, peel_ty
from prov import Prov, has_field, has_call
from mirq import MirQ
from templates import enclosing_contexts

L = "graphql_loader::"
TASK = L + "tasks::Task"
TASKS = L + "tasks::Tasks"
GROW = {"push", "push_str", "insert", "insert_str", "reserve", "reserve_exact", "extend", "extend_from_slice",
        "shrink_to_fit", "shrink_to", "truncate", "clear", "pop", "remove", "retain", "drain", "replace_range",
        "try_reserve", "try_reserve_exact", "add_assign", "write_str", "write_fmt", "write_char"}

# user-written unsafe sites, each with its ownership argument (key: function path -> {unsafe callee: reason})
UNSAFE_OK = {
    L + "read_str_ptr": {"core::slice::raw::from_raw_parts": "reads `len` bytes the host wrote into a buffer obtained from alloc_string; copied out immediately (to_vec)"},
    L + "free_string": {"alloc::string::String::from_raw_parts": "rebuilds the String leaked by alloc_string (len 0, capacity = requested) to free it"},
    "<" + TASK + " as core::ops::drop::Drop>::drop": {"alloc::string::String::from_raw_parts": "rebuilds each leaked source buffer from the triple recorded in register_file, exactly once (drain)"},
    "nitrogql_async_runtime::ticket::execute_node_ret": {"core::slice::raw::from_raw_parts": "reads `result_len` bytes handed over by the JS host for one ticket; copied out immediately (to_vec)"},
    "nitrogql_cli::free_string": {"alloc::string::String::from_raw_parts": "CLI twin of the loader's free_string"},
}


def user_unsafe(P):
    out = []
    for f in P.fns.values():
        if f.derived or "::tests" in f.path:
            continue
        for n in f.walk():
            if n.get("k") == "Block" and n.get("unsafe") and not n.get("x"):
                cs = sorted(set(call_name(x) for x in subnodes(n) if x.get("k") in ("Call", "MethodCall") and call_name(x)))
                derefs = [x for x in subnodes(n) if x.get("k") == "Unary" and x.get("op") == "Deref" and "*" in (x["e"].get("t") or "")[:1]]
                out.append((f, n, cs, derefs))
    return out


def r19a(P, R):
    sites = user_unsafe(P)
    R.count("unsafe_blocks", len(sites))
    for f, n, cs, derefs in sites:
        ok_tab = UNSAFE_OK.get(f.path)
        key = "unsafe:" + f.path
        if f.crate in ("nitrogql_async_runtime", "nitrogql_config_file") or f.path.startswith(("nitrogql_async_runtime", "nitrogql_config_file")):
            # FFI to the JS host (execute_node / tickets): extern imports, no raw memory handed out
            bad = [c for c in cs if ("from_raw_parts" in c or "transmute" in c) and c not in (ok_tab or {})]
            R.check("R19-a", key, not bad and not derefs, "FFI call into the host runtime (no raw-parts reconstruction)",
                    "%s performs raw memory operations %s in an FFI block" % (f.path, bad), loc=f.loc())
            continue
        if ok_tab is None:
            R.violated("R19-a", key, "unreviewed unsafe block in %s (calls %s): every unsafe operation must be in the ownership table" % (f.path, cs), loc=f.loc())
            continue
        unsafe_calls = [c for c in cs if "from_raw_parts" in c or "transmute" in c or "from_utf8_unchecked" in c or "::read" in c or "::write" in c or "offset" in c]
        extra = [c for c in unsafe_calls if c not in ok_tab]
        R.check("R19-a", key, not extra and not derefs, "; ".join(ok_tab.values()),
                "%s performs unsafe operations outside its ownership table: %s (raw derefs: %d)" % (f.path, extra, len(derefs)), loc=f.loc())
    R.floor("R19-a", "user-written unsafe blocks", len(sites), 4)
    # exact set of raw-parts users in the loader crate
    users = sorted(set(f.path for f, c, n in P.ext_callers(lambda p: "from_raw_parts" in p) if "::tests" not in f.path))
    R.check("R19-a", "raw-parts-users", set(users) <= set(UNSAFE_OK), "raw-parts reconstruction only at the listed sites",
            "raw-parts reconstruction in unlisted functions: %s" % sorted(set(users) - set(UNSAFE_OK)))


def r19b(P, R):
    reg = P.fn(TASK + "::register_file")
    drop = P.fn("<" + TASK + " as core::ops::drop::Drop>::drop")
    # who touches source_drop_list
    touch = sorted(f.path for f in P.fns.values() if (TASK, "source_drop_list") in field_reads(f) and not f.derived)
    R.check("R19-b", "drop-list-owners", set(touch) <= {reg.path, drop.path, P.fn(TASK + "::new").path},
            "source_drop_list is touched only by new/register_file/Drop", "source_drop_list is also touched by %s" % touch)
    pv = Prov(reg)
    pushes = [c for c in reg.walk() if c.get("k") == "MethodCall" and c["method"] == "push" and c["recv"].get("k") == "Field" and c["recv"]["field"] == "source_drop_list"]
    R.check("R19-b", "push-once", len(pushes) == 1, "each registered source is recorded once", "register_file records %d triples" % len(pushes), loc=reg.loc())
    # the triple is (as_mut_ptr, len, capacity) of the same String parameter
    tups = [n for n in reg.walk() if n.get("k") == "Tup" and len(n["es"]) == 3]
    ok = False
    for t in tups:
        ms = [e.get("method") for e in t["es"]]
        src_local = reg.params[2].get("local") if len(reg.params) > 2 else None
        same = all(e.get("k") == "MethodCall" and e["recv"].get("k") == "Path" and e["recv"].get("local") == src_local for e in t["es"])
        if ms == ["as_mut_ptr", "len", "capacity"] and same:
            ok = True
    R.check("R19-b", "triple-shape", ok, "(ptr, len, capacity) taken from the same String, in from_raw_parts order",
            "register_file does not record (source.as_mut_ptr(), source.len(), source.capacity())", loc=reg.loc())
    # Drop: drained (each triple consumed exactly once) and passed in order to from_raw_parts
    drains = [c for c in drop.walk() if c.get("k") == "MethodCall" and c["method"] == "drain" and c["recv"].get("k") == "Field" and c["recv"]["field"] == "source_drop_list"]
    R.check("R19-b", "drain-once", len(drains) == 1, "Drop consumes the list with drain(..)", "Drop does not drain source_drop_list exactly once", loc=drop.loc())
    frp = [c for c in drop.walk() if c.get("k") == "Call" and (call_name(c) or "") == "alloc::string::String::from_raw_parts"]
    ok = len(frp) == 1 and [a.get("name") for a in frp[0]["args"]] == ["ptr", "len", "capacity"]
    R.check("R19-b", "free-order", ok, "from_raw_parts(ptr, len, capacity) with the recorded components in order",
            "Drop rebuilds the String with arguments %s" % ([a.get("name") for a in frp[0]["args"]] if frp else None), loc=drop.loc())
    # EXACT-CAPACITY INVARIANT: into_boxed_str() after recording is safe only if capacity == len for every String reaching register_file
    rsp = P.fn(L + "read_str_ptr")
    pvr = Prov(rsp)
    tail = rsp.body["b"].get("tail") if rsp.body.get("k") == "BlockExpr" else None
    a = pvr.atoms(tail) if tail else set()
    ok = has_call(a, "alloc::string::String::from_utf8") and has_call(a, "to_vec")
    R.check("R19-b", "exact-capacity:source-construction", ok, "ABI strings are built as String::from_utf8(<slice>.to_vec()) (capacity == len)",
            "read_str_ptr no longer builds its result with an exact-capacity allocation; register_file would free with a stale capacity/pointer", loc=rsp.loc())
    # no growing operation on the source between read_str_ptr and register_file (moves only)
    chain = [P.fn(L + "initiate_task"), P.fn(L + "load_file"), P.fn(L + "loader::initiate_task"), P.fn(L + "loader::load_file"), reg]
    for f in chain:
        pvf = Prov(f)
        string_params = {p_.get("local") for p_, t_ in zip(f.params, f.sig_inputs) if t_ == "alloc::string::String"}
        grows = []

        def is_source(base):
            if base.get("k") != "Path" or "local" not in base:
                return False
            return base["local"] in string_params or has_call(pvf.atoms(base), "read_str_ptr")
        for c in f.walk():
            if c.get("k") == "MethodCall" and c["method"] in GROW and peel_ty(c.get("recv_ty", "")) == "alloc::string::String":
                base = c["recv"]
                while base.get("k") in ("AddrOf", "Unary", "Field"):
                    base = base["e"]
                if is_source(base):
                    grows.append(c["method"])
            if c.get("k") == "AssignOp" and is_source(c["l"]):
                grows.append("+=")
        R.check("R19-b", "exact-capacity:no-growth@" + short(f.path), not grows, "the source String is only moved",
                "%s applies %s to the source String before it is registered: capacity may exceed len, so into_boxed_str() reallocates "
                "and the recorded (ptr, len, capacity) is stale when the task is dropped" % (f.path, grows), loc=f.loc())
    # ABI wrappers obtain the source from read_str_ptr
    for name in ("initiate_task", "load_file"):
        f = P.fn(L + name)
        pvf = Prov(f)
        calls = [c for c in f.walk() if c.get("k") == "Call" and (call_name(c) or "") == L + "loader::" + name]
        ok = bool(calls) and all(has_call(pvf.atoms(c["args"][-1]), "read_str_ptr") and
                                 not any(x[0] == "call" and x[1].split("::")[-1] in ("with_capacity", "format", "to_owned", "to_string", "clone", "repeat")
                                         for x in pvf.atoms(c["args"][-1])) for c in calls)
        R.check("R19-b", "exact-capacity:abi-source@" + name, ok, "the source handed to the loader comes straight from read_str_ptr",
                "%s passes a source String that is not the direct result of read_str_ptr" % f.path, loc=f.loc())
    # record-before-box ordering is the fragile part: report it as an observation
    R.note("observation (not a violation): register_file records (ptr,len,capacity) before into_boxed_str(); safe only under the "
           "exact-capacity invariant checked above")


def r19c(P, R):
    drop = P.fn("<" + TASK + " as core::ops::drop::Drop>::drop")
    mq = MirQ(P.mir[drop.path])
    clears = mq.calls_to(lambda p: p.endswith("HashMap::clear") or p.endswith("hash::map::HashMap::clear"))
    frees = mq.calls_to(lambda p: p == "alloc::string::String::from_raw_parts")
    R.floor("R19-c", "free sites in Drop", len(frees), 1)
    ok = bool(clears) and all(any(mq.dominates(c, fr) for c in clears) for fr in frees)
    R.check("R19-c", "clear-before-free", ok, "loaded_files.clear() dominates every from_raw_parts in Drop (documents borrow the buffers)",
            "Drop for Task frees the source buffers on a path where loaded_files has not been cleared: the parsed documents "
            "still borrow the freed text", loc=drop.loc())
    # and clear() is on loaded_files
    cl = [c for c in drop.walk() if c.get("k") == "MethodCall" and c["method"] == "clear"]
    ok = bool(cl) and cl[0]["recv"].get("k") == "Field" and cl[0]["recv"]["field"] == "loaded_files"
    R.check("R19-c", "clear-target", ok, "what is cleared is loaded_files", "Drop clears something other than loaded_files", loc=drop.loc())


def r19d(P, R):
    """total task lookup: unknown/freed ids give an error result, never a trap"""
    for name in ("get_required_files", "load_file", "emit_js"):
        f = P.fn(L + "loader::" + name)
        pv = Prov(f)
        gets = [c for c in f.walk() if c.get("k") == "MethodCall" and (call_name(c) or "") in (TASKS + "::get_task", TASKS + "::get_task_mut")]
        R.check("R19-d", "lookup:" + name, len(gets) == 1 and ("param", "task_id") in pv.atoms(gets[0]["args"][0]),
                "task resolved through the Option-returning accessor by the given id",
                "%s does not resolve its task through get_task(_mut)(task_id)" % f.path, loc=f.loc())
        # the Option is turned into Err(TaskNotFound): ok_or_else(..)? with TaskNotFound
        conv = [c for c in f.walk() if c.get("k") == "MethodCall" and c["method"] in ("ok_or_else", "ok_or") and gets and c["recv"] is gets[0]]
        tn = any(norm(x.get("def", "")).endswith("LoaderError::TaskNotFound") for c in conv for x in subnodes(c))
        R.check("R19-d", "not-found:" + name, bool(conv) and tn, "None => Err(TaskNotFound)",
                "%s does not map a missing task to Err(TaskNotFound) (unwrap/expect on an unknown id would trap)" % f.path, loc=f.loc())
        # other uses of `tasks`: none
        tasks_local = f.params[0].get("local") if f.params else None
        uses = [c["method"] for c in f.walk() if c.get("k") == "MethodCall" and c["recv"].get("k") == "Path" and c["recv"].get("local") == tasks_local]
        R.check("R19-d", "isolation:" + name, set(uses) <= {"get_task", "get_task_mut"}, "only the addressed task is touched",
                "%s also uses the task table through %s" % (f.path, uses), loc=f.loc())
    # the accessors are plain map lookups keyed by the id
    for acc, m in (("get_task", "get"), ("get_task_mut", "get_mut"), ("remove_task", "remove")):
        f = P.fn(TASKS + "::" + acc)
        pv = Prov(f)
        cs = [c for c in f.walk() if c.get("k") == "MethodCall" and c["method"] == m and "HashMap" in norm(c.get("recv_ty", ""))]
        ok = len(cs) == 1 and ("param", "task_id") in pv.atoms(cs[0]["args"][0]) and not any(x.get("k") == "MethodCall" and x["method"] in ("unwrap", "expect") for x in f.walk())
        R.check("R19-d", "accessor:" + acc, ok, "Option-returning lookup by id", "%s is not a total lookup by task_id" % f.path, loc=f.loc())
    # ids: monotonically increasing counter, never derived from the table's size
    add = P.fn(TASKS + "::add_task")
    pv = Prov(add)
    incs = [n for n in add.walk() if n.get("k") == "AssignOp" and n["l"].get("k") == "Field" and n["l"]["field"] == "next_task_id" and n.get("op") == "+="]
    tail = add.body["b"].get("tail") if add.body.get("k") == "BlockExpr" else None
    ta = pv.atoms(tail) if tail else set()
    ok = len(incs) == 1 and has_field(ta, TASKS, "next_task_id") and not any(x[0] == "call" and x[1].endswith("::len") for x in ta)
    R.check("R19-d", "ids-monotonic", ok, "ids come from a counter that only increases",
            "add_task does not issue ids from a monotonically increasing counter (an id could be reused while live or after free)", loc=add.loc())
    writers = sorted(f.path for f in P.fns.values() if not f.derived and any(
        n.get("k") in ("Assign", "AssignOp") and n["l"].get("k") == "Field" and n["l"]["field"] == "next_task_id" and norm(n["l"].get("adt")) == TASKS for n in f.walk()))
    R.check("R19-d", "ids-single-writer", writers == [add.path], "only add_task advances the counter", "next_task_id is written by %s" % writers)
    ins = [c for c in add.walk() if c.get("k") == "MethodCall" and c["method"] == "insert"]
    ok = len(ins) == 1 and not has_call(pv.atoms(ins[0]["args"][0]), "::len")
    R.check("R19-d", "ids-insert-key", ok, "the task is stored under the issued id", "add_task stores the task under another key", loc=add.loc())
    # emit_js: get_root_document's expect is justified by initiate_task registering the root before add_task
    it = P.fn(L + "loader::initiate_task")
    mq = MirQ(P.mir[it.path])
    regs = mq.calls_to(lambda p: p == TASK + "::register_file")
    adds = mq.calls_to(lambda p: p == TASKS + "::add_task")
    ok = bool(regs) and bool(adds) and all(any(mq.dominates(r, a) for r in regs) for a in adds)
    R.check("R19-d", "root-registered-before-add", ok, "register_file(root) dominates add_task: every live task has its root document",
            "a task can be added without its root file registered: emit_js's `Root file should be present` expect becomes reachable", loc=it.loc())
    pvi = Prov(it)
    news = [c for c in it.walk() if c.get("k") == "Call" and (call_name(c) or "") == TASK + "::new"]
    regc = [c for c in it.walk() if c.get("k") == "MethodCall" and (call_name(c) or "") == TASK + "::register_file"]
    ok = bool(news) and bool(regc) and ("param", "file_name") in pvi.atoms(news[0]["args"][0]) and ("param", "file_name") in pvi.atoms(regc[0]["args"][0])
    R.check("R19-d", "root-name-agrees", ok, "the task's root name and the registered root file are the same value",
            "initiate_task registers the root source under a different name than the task's root_file_name", loc=it.loc())


def r19e(P, R):
    """thread-local cells are touched only by the ABI wrappers; loader::* takes &mut Tasks and touches no static"""
    cells = [L + "TASKS", L + "RESULT", L + "CONFIG"]
    allowed = {L + n for n in ("initiate_task", "get_required_files", "load_file", "emit_js", "free_task", "get_result_ptr",
                               "get_result_size", "get_log", "load_config_impl")}
    users = {}
    for f in P.fns.values():
        if f.derived or "::tests" in f.path or not f.path.startswith(L):
            continue
        for n in f.walk():
            if n.get("k") == "Path" and norm(n.get("def", "")) in cells:
                users.setdefault(f.path, set()).add(norm(n["def"]))
    for p, cs in sorted(users.items()):
        R.check("R19-e", "cell-user:" + short(p), p in allowed, "ABI wrapper", "%s touches thread-local %s; only the ABI wrappers may" % (p, sorted(cs)), loc=P.fns[p].loc())
    R.floor("R19-e", "functions touching the cells", len(users), 8)
    for p in users:
        if p.startswith(L + "loader::") or p.startswith(L + "tasks::"):
            R.violated("R19-e", "loader-touches-static:" + p, "%s (task logic) reaches a process-wide cell: task answers no longer depend only on the task" % p)
    # no nested borrow of the same cell
    for p in sorted(users):
        f = P.fns[p]
        acc = f.nodes()
        for i, (n, _) in enumerate(acc):
            if n.get("k") == "MethodCall" and n["method"] == "with" and n["recv"].get("k") == "Path" and norm(n["recv"].get("def", "")) in cells:
                cell = norm(n["recv"]["def"])
                inner = [x for x in subnodes(n["args"][0]) if x.get("k") == "MethodCall" and x["method"] == "with"
                         and x["recv"].get("k") == "Path" and norm(x["recv"].get("def", "")) == cell]
                R.check("R19-e", "no-nested-borrow:%s:%s" % (short(p), cell.split("::")[-1]), not inner,
                        "no nested access to the same cell", "%s nests two accesses to %s (RefCell double borrow panics)" % (p, cell), loc=f.loc())
    # get_required_files resolves imports relative to the importing file (same rule as the import resolver)
    g = P.fn(L + "loader::get_required_files")
    pv = Prov(g)
    rr = [c for c in g.walk() if c.get("k") == "Call" and (call_name(c) or "").endswith("resolve_relative_path")]
    R.floor("R19-e", "path resolutions in get_required_files", len(rr), 1)
    for c in rr:
        a0 = pv.atoms(c["args"][0])
        ok = has_call(a0, "Task::iter_loaded_files") and not has_field(a0, TASK, "root_file_name")
        R.check("R19-e", "required-relative-to-importer", ok, "required files are resolved relative to the file containing the #import",
                "get_required_files resolves import paths against something other than the importing file (emit_js resolves relative to the "
                "importer): the files asked for are not the ones emit needs", loc=g.loc())
    # required = unresolved: skip test uses contains_file on the same resolved path
    cf = [c for c in g.walk() if c.get("k") == "MethodCall" and (call_name(c) or "") == TASK + "::contains_file"]
    ok = bool(cf) and has_call(pv.atoms(cf[0]["args"][0]), "resolve_relative_path")
    R.check("R19-e", "required-skips-loaded", ok, "already supplied files are not asked for again", "get_required_files does not skip files the task already has", loc=g.loc())
    # ... and the answer is a pure function of the files supplied: the query does not modify the task, and nothing is removed
    # from the list once computed
    from templates import LOSSY_OR_REORDERING
    muts = []
    for c in g.walk():
        if c.get("k") == "MethodCall":
            cn = call_name(c) or ""
            if cn.startswith(TASK + "::") and cn in P.fns and (P.fns[cn].sig_inputs or [""])[0].startswith("&mut"):
                muts.append(short(cn))
    trimmed = [c["method"] for c in g.walk() if c.get("k") == "MethodCall" and c["method"] in (LOSSY_OR_REORDERING | {"retain", "retain_mut", "drain", "truncate", "pop", "remove", "clear"})
               and "PathBuf" in norm(c.get("recv_ty", ""))]
    R.check("R19-e", "required-is-a-query", not muts and not trimmed, "get_required_files only reads the task and only appends to its answer",
            "get_required_files %s: the files a task asks for depend on how often it was asked, not only on the files supplied (a file "
            "reported once and never supplied disappears from later answers)"
            % ("; ".join(x for x in (("calls mutating Task methods %s" % muts) if muts else "", ("post-filters its answer with %s" % trimmed) if trimmed else "") if x)), loc=g.loc())
    # emit_js prints the document of *this* task with the config passed in
    e = P.fn(L + "loader::emit_js")
    pve = Prov(e)
    ri = [c for c in e.walk() if c.get("k") == "Call" and (call_name(c) or "").endswith("resolve_operation_imports")]
    ok = bool(ri) and has_field(pve.atoms(ri[0]["args"][0]), TASK, "root_file_name") and has_call(pve.atoms(ri[0]["args"][0]), "Task::get_root_document")
    R.check("R19-e", "emit-own-root", ok, "emit resolves imports from the task's own root document and root path",
            "emit_js does not start from the task's own root document/path", loc=e.loc())


def r19pc(P, R):
    from facts import Program
    SC = Program(harness.selfcheck_facts())
    us = [(f.name, cs) for f, n, cs, d in user_unsafe(SC)]
    ok = len(us) == 1 and us[0][0] == "rebuild" and any("from_raw_parts" in c for c in us[0][1])
    R.check("R19-pc", "control:unsafe", ok, "unsafe-block control detected", "self-check: the unsafe inventory sees %s in the control crate" % us)


RULES = [("R19-pc", r19pc), ("R19-a", r19a), ("R19-b", r19b), ("R19-c", r19c), ("R19-d", r19d), ("R19-e", r19e)]
EXPLANATION = (
    "Ownership and totality clauses of the loader, for every call history: (R19-a) the user-written unsafe blocks of the workspace "
    "are exactly the listed ones, each with its ownership argument; (R19-b) source_drop_list is pushed once per registration with "
    "(ptr,len,capacity) of the same String and drained once in Drop into from_raw_parts in order, and the exact-capacity invariant "
    "that makes recording-before-boxing safe holds along the whole ABI path (from_utf8(to_vec) construction, moves only); (R19-c) "
    "loaded_files.clear() dominates every free in Drop (MIR dominators); (R19-d) task ids come from a counter written only by "
    "add_task, lookups are Option-returning and mapped to Err(TaskNotFound), loader functions touch only the addressed task, and "
    "register_file(root) dominates add_task; (R19-e) the thread-local cells are used only by the ABI wrappers without nested "
    "borrows, required files are resolved relative to the importing file and skip supplied ones, emit starts from the task's own "
    "root. Not decided: equivalence with a reference model over histories, sanitizer-cleanliness of executions.")
ASSUMPTIONS = ["the host (packages/loader-core) passes buffers obtained from alloc_string with the stated lengths (TypeScript, read only)",
               "std String/Vec allocation semantics: to_vec() allocates exactly len; into_boxed_str() reallocates iff capacity > len"]


def main(tier):
    return harness.run_property("C19", RULES, "other", EXPLANATION, ASSUMPTIONS, tier)
