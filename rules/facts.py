"""Fact loader and generic queries over the typed-HIR / MIR dump produced by engine/factdrv.

Nothing in here runs the analysed program; it only reads the JSON facts that the
driver extracted from /repo's current source.
"""
import glob
import json
import os
import re
import sys

sys.setrecursionlimit(20000)

_LT = re.compile(r"<'[A-Za-z_]+>")
_LT2 = re.compile(r"'[A-Za-z_]+(, )?")


_NORM = {}


def norm(path):
    """Normalise a def path printed by rustc: drop turbofish segments and lifetimes (memoised)."""
    if path is None:
        return None
    r = _NORM.get(path)
    if r is None:
        r = _NORM[path] = _norm(path)
    return r


def _norm(path):
    # drop `::<...>` turbofish (balanced)
    out = []
    i = 0
    n = len(path)
    while i < n:
        if path.startswith("::<", i):
            depth = 0
            j = i + 2
            while j < n:
                if path[j] == "<":
                    depth += 1
                elif path[j] == ">":
                    depth -= 1
                    if depth == 0:
                        break
                j += 1
            i = j + 1
            continue
        out.append(path[i])
        i += 1
    s = "".join(out)
    s = _LT.sub("", s)
    s = _LT2.sub("", s)
    s = s.replace("<>", "")
    s = s.replace("r#", "")
    return s


class Fn:
    __slots__ = ("path", "name", "crate", "file", "line", "body_end", "derived", "impl_trait",
                 "self_adt", "self_ty", "raw", "body", "params", "kind", "pub", "sig_inputs",
                 "sig_output", "abi", "no_mangle", "from_expansion", "_nodes", "_calls")

    def __init__(self, raw, crate):
        self.raw = raw
        self.path = norm(raw["path"])
        self.name = raw["name"]
        self.crate = crate
        self.file = raw["file"]
        self.line = raw["line"]
        self.body_end = raw.get("body_end", raw["line"])
        self.derived = bool(raw.get("derived") or raw.get("impl_derived"))
        self.from_expansion = bool(raw.get("from_expansion"))
        self.impl_trait = norm(raw.get("impl_trait"))
        self.self_adt = norm(raw.get("self_adt"))
        self.self_ty = norm(raw.get("self_ty"))
        self.body = raw["body"]
        self.params = raw["params"]
        self.kind = raw["kind"]
        self.pub = raw.get("pub", False)
        self.sig_inputs = [norm(x) for x in raw.get("sig_inputs", [])]
        self.sig_output = norm(raw.get("sig_output"))
        self.abi = raw.get("abi")
        self.no_mangle = raw.get("no_mangle", False)
        self._nodes = None
        self._calls = None

    def loc(self):
        return "%s:%d" % (self.file, self.line)

    def nodes(self):
        """All HIR nodes (expressions, patterns, statements) with their parent chain.
        Returns list of (node, parent_index) in pre-order; index 0 is the body root."""
        if self._nodes is None:
            acc = []
            for p in self.params:
                _collect(p, -1, acc)
            _collect(self.body, -1, acc)
            self._nodes = acc
        return self._nodes

    def walk(self):
        for n, _ in self.nodes():
            yield n

    def parents_of(self, idx):
        acc = self.nodes()
        out = []
        p = acc[idx][1]
        while p >= 0:
            out.append(acc[p][0])
            p = acc[p][1]
        return out

    def __repr__(self):
        return "Fn(%s)" % self.path


def _collect(node, parent, acc):
    # iterative pre-order to avoid recursion limits
    stack = [(node, parent)]
    while stack:
        n, par = stack.pop()
        if isinstance(n, dict):
            if "k" in n:
                acc.append((n, par))
                me = len(acc) - 1
            else:
                me = par
            # push children in reverse to keep source order
            kids = []
            for key, v in n.items():
                if isinstance(v, (dict, list)):
                    kids.append(v)
            for v in reversed(kids):
                stack.append((v, me))
        elif isinstance(n, list):
            for v in reversed(n):
                if isinstance(v, (dict, list)):
                    stack.append((v, par))


def children(node):
    """Direct child nodes (dicts with 'k') of a node, in source order."""
    out = []

    def rec(v):
        if isinstance(v, dict):
            if "k" in v:
                out.append(v)
            else:
                for x in v.values():
                    rec(x)
        elif isinstance(v, list):
            for x in v:
                rec(x)

    for key, v in node.items():
        if isinstance(v, (dict, list)):
            rec(v)
    return out


def subnodes(node):
    """node and all its descendants (pre-order)."""
    acc = []
    _collect(node, -1, acc)
    return [n for n, _ in acc]


class Adt:
    def __init__(self, raw, crate):
        self.raw = raw
        self.path = norm(raw["path"])
        self.kind = raw["kind"]
        self.crate = crate
        self.file = raw["file"]
        self.line = raw["line"]
        self.variants = raw["variants"]

    def fields(self, variant=None):
        """field names of a struct (or of the named enum variant)."""
        if self.kind == "Struct":
            return [f["name"] for f in self.variants[0]["fields"]]
        for v in self.variants:
            if v["name"] == variant:
                return [f["name"] for f in v["fields"]]
        return []

    def field_types(self):
        assert self.kind == "Struct"
        return {f["name"]: norm(f["ty"]) for f in self.variants[0]["fields"]}

    def variant_names(self):
        return [v["name"] for v in self.variants]


class Mir:
    def __init__(self, raw, crate):
        self.raw = raw
        self.path = norm(raw["path"])
        self.kind = raw["kind"]
        self.parent = norm(raw.get("parent"))
        self.crate = crate
        self.bbs = raw["bbs"]
        self.locals = raw["locals"]
        self.argc = raw["argc"]
        self.names = raw["names"]

    def succs(self, i, unwind=False):
        t = self.bbs[i]["t"]
        k = t.get("k")
        out = []
        if k == "switch":
            out = [b for _, b in t["targets"]] + [t["otherwise"]]
        elif "target" in t:
            out = [t["target"]]
        if unwind and "unwind" in t:
            out.append(t["unwind"])
        return out


class Program:
    def __init__(self, facts_dir):
        self.fns = {}
        self.adts = {}
        self.mir = {}
        self.crates = []
        self.closure_mir = {}
        files = sorted(glob.glob(os.path.join(facts_dir, "*.json")))
        if not files:
            raise RuntimeError("no fact files in %s" % facts_dir)
        for f in files:
            d = json.load(open(f))
            crate = d["crate"]
            self.crates.append(crate)
            for a in d["adts"]:
                x = Adt(a, crate)
                self.adts[x.path] = x
            for fn in d["fns"]:
                x = Fn(fn, crate)
                # duplicated paths: generic impls that differ only in their type arguments (`impl From<&A> for T` / `impl From<&B>
                # for T`, the two `Extend` impls of one builder) print the same normalised path.  The first keeps the plain path
                # (call resolution is by that path); the others stay visible to rules that iterate over functions under `path#n`.
                if x.path in self.fns:
                    k = 2
                    while "%s#%d" % (x.path, k) in self.fns:
                        k += 1
                    x.path = "%s#%d" % (x.path, k)
                self.fns[x.path] = x
            for m in d["mir"]:
                x = Mir(m, crate)
                if x.kind == "Closure":
                    self.closure_mir.setdefault(x.parent, []).append(x)
                    self.mir.setdefault(x.path, x)
                else:
                    self.mir.setdefault(x.path, x)
        self.by_name = {}
        self.impls = {}
        for fn in self.fns.values():
            self.by_name.setdefault(fn.name, []).append(fn)
            if fn.impl_trait:
                self.impls.setdefault((fn.impl_trait, fn.name), []).append(fn)
        self._cg = None

    # ------------------------------------------------------------------ lookup
    def fn(self, suffix, required=True):
        """Find the unique function whose normalised path ends with `suffix` (at a path-segment boundary).
        If there is none, a function of the same name that was *moved* to another module of the same crate is accepted when
        it is unique (plain `crate::..::name` paths only): moving code between files does not disturb an anchor."""
        hits = [f for p, f in self.fns.items() if p == suffix or p.endswith("::" + suffix)
                or (suffix.startswith("<") and p == suffix)]
        if len(hits) == 1:
            return hits[0]
        if not hits:
            moved = self._moved(suffix)
            if moved is not None:
                return moved
            if required:
                raise AnchorMissing("function `%s` not found" % suffix)
            return None
        raise AnchorMissing("function `%s` is ambiguous: %s" % (suffix, [h.path for h in hits]))

    def _moved(self, suffix):
        if suffix.startswith("<") or " as " in suffix or "::" not in suffix:
            return None
        segs = suffix.split("::")
        name = segs[-1]
        crate = segs[0] if segs[0] in self.crates or segs[0].replace("-", "_") in self.crates else None
        # `Type::method` anchors keep their type segment
        owner = segs[-2] if len(segs) >= 2 and segs[-2][:1].isupper() else None
        cands = []
        for f in self.by_name.get(name, []):
            if f.derived or "::tests::" in f.path or f.path.startswith("<"):
                continue
            if crate and not f.path.startswith(crate + "::"):
                continue
            fs = f.path.split("::")
            if owner and (len(fs) < 2 or fs[-2] != owner):
                continue
            if not owner and len(fs) >= 2 and fs[-2][:1].isupper():
                continue
            cands.append(f)
        if len(cands) == 1 and (crate or owner):
            return cands[0]
        return None

    def fns_matching(self, pred):
        return [f for f in self.fns.values() if pred(f)]

    def trait_impls(self, trait_suffix, method=None):
        out = []
        for (tr, m), fs in self.impls.items():
            if (tr == trait_suffix or tr.endswith("::" + trait_suffix)) and (method is None or m == method):
                out.extend(fs)
        return out

    def adt(self, suffix, required=True):
        hits = [a for p, a in self.adts.items() if p == suffix or p.endswith("::" + suffix)]
        if len(hits) == 1:
            return hits[0]
        if not hits:
            if required:
                raise AnchorMissing("type `%s` not found" % suffix)
            return None
        raise AnchorMissing("type `%s` is ambiguous: %s" % (suffix, [h.path for h in hits]))

    # -------------------------------------------------------------- call graph
    def callees_of(self, fn):
        """Set of workspace function paths `fn` may call (CHA for unresolved trait calls).
        Also returns external callee paths. -> (local:set[str], external:set[str])"""
        if fn._calls is not None:
            return fn._calls
        local, ext = set(), set()
        for n in fn.walk():
            for c in node_callees(n):
                self._resolve_into(c, n, local, ext)
        fn._calls = (local, ext)
        return fn._calls

    def _resolve_into(self, c, n, local, ext):
        callee, rd = c
        if rd and rd in self.fns:
            local.add(rd)
            return
        if callee in self.fns:
            f = self.fns[callee]
            local.add(callee)
            # a trait method with a default body can still be overridden: add impls
            if f.raw.get("trait_default_of"):
                for g in self.impls.get((norm(f.raw["trait_default_of"]), f.name), []):
                    local.add(g.path)
            return
        # unresolved trait method declared in the workspace: all impls
        idx = callee.rfind("::")
        if idx > 0:
            tr, m = callee[:idx], callee[idx + 2:]
            hits = self.impls.get((tr, m))
            if hits:
                if rd is None:
                    # narrow by receiver ADT if known
                    sa = norm(n.get("self_adt")) if isinstance(n, dict) else None
                    narrowed = [h for h in hits if sa and h.self_adt == sa]
                    for h in (narrowed or hits):
                        local.add(h.path)
                    return
        ext.add(rd or callee)

    def callgraph(self):
        if self._cg is None:
            self._cg = {p: self.callees_of(f)[0] for p, f in self.fns.items()}
        return self._cg

    def reachable(self, entries, stop=None):
        """Set of fn paths reachable from the entry Fn objects (inclusive)."""
        cg = self.callgraph()
        seen = set()
        stack = [e.path if isinstance(e, Fn) else e for e in entries]
        while stack:
            p = stack.pop()
            if p in seen:
                continue
            if stop and p in stop:
                continue
            seen.add(p)
            stack.extend(cg.get(p, ()))
        return seen

    def callers_of(self, path):
        cg = self.callgraph()
        return sorted(p for p, cs in cg.items() if path in cs)

    def ext_callers(self, pred):
        """[(fn, ext_callee, node)] for calls to non-workspace functions matching pred(path)."""
        out = []
        for f in self.fns.values():
            for n in f.walk():
                for callee, rd in node_callees(n):
                    p = rd or callee
                    if p not in self.fns and pred(p):
                        out.append((f, p, n))
        return out


class AnchorMissing(Exception):
    pass


def node_callees(n):
    """[(callee, resolved)] def paths this node calls or references as a function value."""
    k = n.get("k")
    out = []
    if k in ("MethodCall", "Binary", "Unary", "AssignOp", "Index"):
        c = n.get("callee")
        if c:
            out.append((norm(c), norm(n.get("rd"))))
    elif k == "Call":
        pass  # the callee Path child reports itself (avoids double counting)
    elif k == "Path":
        dk = n.get("dk", "")
        if dk in ("Fn", "AssocFn"):
            out.append((norm(n["def"]), norm(n.get("rd"))))
    return out


# ---------------------------------------------------------------------- queries
def field_reads(fn):
    """{(adt, field)} read by `fn`: field expressions and struct/tuple-struct patterns that bind
    or inspect the field (a `_` sub-pattern or a field left to `..` is not a read)."""
    out = set()
    for n in fn.walk():
        k = n.get("k")
        if k == "Field" and n.get("adt"):
            out.add((norm(n["adt"]), n["field"]))
        elif k == "Struct" and "rest" in n:  # struct pattern
            if n.get("dk") == "Variant":
                key = norm(n["def"])
            else:
                key = norm(n.get("pat_adt"))
            for f in n["fields"]:
                if f["p"].get("k") != "Wild":
                    out.add((key, f["name"]))
    return out


def calls_in(fn, pred):
    """nodes in fn that call something whose (callee or resolved) path satisfies pred."""
    out = []
    for n in fn.walk():
        for callee, rd in node_callees(n):
            if pred(rd or callee) or (rd and pred(callee)):
                out.append(n)
                break
    return out


def call_name(n):
    """Normalised callee path of a Call/MethodCall node (resolved impl if known)."""
    if n.get("k") == "Call":
        c = n.get("callee")
        f = n.get("f", {})
        return norm(f.get("rd") or c)
    if n.get("k") == "MethodCall":
        return norm(n.get("rd") or n.get("callee"))
    return None


def call_args(n):
    """all argument expressions incl. the receiver for method calls"""
    if n.get("k") == "MethodCall":
        return [n["recv"]] + n["args"]
    if n.get("k") == "Call":
        return n["args"]
    return []


def peel_ty(t):
    """type string without leading references"""
    t = norm(t) or ""
    while t.startswith("&"):
        t = t[1:]
        if t.startswith("mut "):
            t = t[4:]
    return t


def matches_on(fn, adt_suffix):
    """source-level `match` expressions (not desugared loops/`?`) whose scrutinee is the ADT"""
    out = []
    for n in fn.walk():
        if n.get("k") == "Match" and n.get("src") == "Normal":
            t = peel_ty(n["scrut"].get("t"))
            t = t.split("<")[0]
            if t == adt_suffix or t.endswith("::" + adt_suffix):
                out.append(n)
    return out


def arm_variants(match):
    """(set of variant names matched explicitly, has_catch_all) for a match over an enum"""
    variants = set()
    catch_all = False
    for arm in match["arms"]:
        tops = [arm["pat"]]
        while tops:
            top = tops.pop()
            while top.get("k") in ("Ref", "Deref", "Box"):
                top = top["p"]
            k = top.get("k")
            if k == "Or":
                tops.extend(top["ps"])
            elif k in ("Wild",) or (k == "Binding" and "sub" not in top):
                if "guard" not in arm:
                    catch_all = True
            elif k == "Binding":
                tops.append(top["sub"])
            elif k in ("TupleStruct", "Struct", "PatExpr"):
                d = top.get("ctor_of") or top.get("def")
                if d:
                    variants.add(norm(d).split("::")[-1])
    return variants, catch_all


def lit_value(n):
    """literal value of an expression, looking through references/blocks; None if not literal."""
    while n is not None:
        k = n.get("k")
        if k == "Lit":
            return n.get("v")
        if k in ("AddrOf", "DropTemps", "Use", "Cast", "Type"):
            n = n.get("e")
            continue
        if k == "BlockExpr" and not n["b"]["stmts"] and "tail" in n["b"]:
            n = n["b"]["tail"]
            continue
        return None
    return None


def short(path):
    """compact name for messages/keys: `Type::method` for impl methods, last two segments otherwise"""
    if path is None:
        return "?"
    if path.startswith("<") and " as " in path:
        self_ty = path[1:path.index(" as ")]
        self_ty = self_ty.split("<")[0].split("::")[-1] or self_ty
        self_ty = self_ty.strip("[]&")
        return "%s::%s" % (self_ty, path.split("::")[-1])
    parts = path.split("::")
    return "::".join(parts[-2:])


def pat_lits(pat):
    """literal values (str/char/int/bool) a pattern matches explicitly; handles or-patterns and refs"""
    out = []
    st = [pat]
    while st:
        p = st.pop()
        k = p.get("k")
        if k in ("Ref", "Deref", "Box"):
            st.append(p["p"])
        elif k == "Or":
            st.extend(p["ps"])
        elif k == "PatExpr" and "lk" in p:
            out.append(p.get("v"))
        elif k == "Binding" and "sub" in p:
            st.append(p["sub"])
    return out


def is_catch_all(pat):
    while pat.get("k") in ("Ref", "Deref", "Box"):
        pat = pat["p"]
    return pat.get("k") == "Wild" or (pat.get("k") == "Binding" and "sub" not in pat)


def lit_table(match):
    """[(set of literals, has_guard, is_catch_all, arm)] for a match over literals"""
    rows = []
    for arm in match["arms"]:
        rows.append((set(pat_lits(arm["pat"])), "guard" in arm, is_catch_all(arm["pat"]), arm))
    return rows


def matches_on_type(fn, ty):
    """source-level matches whose scrutinee (peeled) type string equals ty, e.g. 'char', 'str'"""
    return [n for n in fn.walk() if n.get("k") == "Match" and n.get("src") == "Normal"
            and peel_ty(n["scrut"].get("t")) == ty]


def fmt_pieces(bs):
    """literal pieces of a `format_args!` template as rustc 1.97 encodes it in a byte string:
    <len><bytes>.. for text, a byte >= 0x80 for an argument placeholder, 0 terminates"""
    out = []
    i = 0
    n = len(bs)
    while i < n and bs[i] != 0:
        b = bs[i]
        if b < 0x80:
            out.append(bytes(bs[i + 1:i + 1 + b]).decode("utf-8", "replace"))
            i += 1 + b
        else:
            out.append(None)  # placeholder
            i += 1
    return out


def str_lits_in(node):
    """string literals below a node, including the literal pieces of format strings"""
    out = []
    for n in subnodes(node):
        if n.get("k") == "Lit" and n.get("lk") == "str":
            out.append(n.get("v"))
        elif n.get("k") == "Lit" and n.get("lk") == "bytes" and "format_args" in (n.get("x") or ""):
            out.extend(p for p in fmt_pieces(n.get("v") or []) if p is not None)
    return out
