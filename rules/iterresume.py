"""ITER-RESUME (cross-cutting, used by xstate as Rnn-s `iter-resume:*`).

A short-circuiting consumer (`any`, `all`, `find`, `find_map`, `position`) leaves its iterator positioned after the first hit.  When it
is called directly on a local iterator that was created *outside* the enclosing repeated context (the body of a loop, or a closure
handed to an Iterator method), every repetition after the first searches only what the previous ones left over: the answer depends
on the order of the underlying sequence, which none of the properties allows (a set-like question "is x listed?" is asked of
a consumed prefix).  Positive evidence only: the receiver must be the iterator local itself (or `local.by_ref()` / `&mut local`).
"""
PARTIAL = {"any", "all", "find", "find_map", "position"}
ITER = "core::iter::traits::iterator::Iterator::"


def _collect(node, parent, acc):
    stack = [(node, parent)]
    while stack:
        n, par = stack.pop()
        if isinstance(n, dict):
            if "k" in n:
                acc.append((n, par)); me = len(acc) - 1
            else:
                me = par
            for v in reversed([v for v in n.values() if isinstance(v, (dict, list))]):
                stack.append((v, me))
        elif isinstance(n, list):
            for v in reversed(n):
                if isinstance(v, (dict, list)):
                    stack.append((v, par))


def _recv_local(r):
    # the iterator local itself, `local.by_ref()`, `&mut local`
    for _ in range(3):
        if not isinstance(r, dict):
            return None
        if r.get("k") == "Path" and "local" in r:
            return r
        if r.get("k") == "MethodCall" and r.get("method") == "by_ref":
            r = r.get("recv")
        elif r.get("k") in ("AddrOf", "Borrow", "Ref"):
            r = r.get("e") or r.get("expr") or r.get("inner")
        else:
            return None
    return None


def scan(raw_fn):
    """yield (local name, consumer, repeated-context description, line) for one raw fn fact (closures nested in it included)."""
    if raw_fn.get("kind") == "Closure" or raw_fn.get("derived") or raw_fn.get("from_expansion"):
        return
    acc = []
    for p in raw_fn.get("params", []):
        _collect(p, -1, acc)
    _collect(raw_fn.get("body"), -1, acc)
    bind = {}
    for i, (n, _) in enumerate(acc):
        if n.get("k") == "Binding" and "local" in n:
            bind.setdefault(n["local"], i)

    def inside(i, anc):
        while i >= 0:
            if i == anc:
                return True
            i = acc[i][1]
        return False

    for i, (n, par) in enumerate(acc):
        if n.get("k") != "MethodCall" or not str(n.get("callee", "")).startswith(ITER) or n.get("method") not in PARTIAL:
            continue
        loc = _recv_local(n.get("recv"))
        if loc is None or loc["local"] not in bind:
            continue
        # the receiver must be the iterator (not a collection auto-referenced into one)
        if str(n.get("self_ty", "")).lstrip("&mut ").strip() != str(loc.get("t", "")).lstrip("&mut ").strip():
            continue
        b = bind[loc["local"]]
        child, a = i, par
        while a >= 0:
            an = acc[a][0]
            ctx = None
            if an.get("k") == "Loop":
                ctx = "the body of a loop"
            elif an.get("k") == "Closure":
                g = acc[a][1]
                gn = acc[g][0] if g >= 0 else {}
                if gn.get("k") == "MethodCall" and str(gn.get("callee", "")).startswith(ITER) and an in (gn.get("args") or []):
                    ctx = "the closure handed to Iterator::%s" % gn.get("method")
            if ctx and not inside(b, a):
                yield loc.get("name", "?"), n["method"], ctx, (n.get("s") or [0])[0]
                break
            child, a = a, acc[a][1]
