"""C09 — Variables types admit only coercible inputs and every explicit one (structural clauses)."""
import harness
from facts import (norm, call_name, short, subnodes, lit_value, matches_on, arm_variants, field_reads, peel_ty, lit_table,
                   matches_on_type, pat_lits)
from prov import Prov, has_field, has_call
from templates import variant_table, enclosing_contexts
from tsrules import nulltable_bottom_up, namespace_targets, all_elements, fast_equal_sound
from c14 import wiring_of, _P as C14P

PR = "nitrogql_printer::"
A = "nitrogql_ast::"
CFG = "nitrogql_config_file::"
OPT = PR + "operation_type_printer::visitor::OperationTypePrinterOptions"
SOPT = PR + "schema_type_printer::printer::SchemaTypePrinterOptions"

# documented config keys (website/docs: configuration/options) -> the Config struct whose derived Deserialize must accept them
CONFIG_KEYS = {
    "GenerateConfig": {"mode", "schemaOutput", "serverGraphqlOutput", "resolversOutput", "schemaModuleSpecifier", "type", "name", "export", "emitSchemaRuntime"},
    "GenerateTypeConfig": {"scalarTypes", "allowUndefinedAsOptionalInput"},
    "GenerateNameConfig": {"operationResultTypeSuffix", "variablesTypeSuffix", "fragmentTypeSuffix", "capitalizeOperationNames", "queryVariableSuffix",
                           "mutationVariableSuffix", "subscriptionVariableSuffix", "fragmentVariableSuffix"},
    "GenerateExportConfig": {"defaultExportForOperation", "operationResultType", "variablesType"},
}


def r09a(P, R):
    from tsrules import nulltable_top_down
    from facts import AnchorMissing
    wrap = P.fn(PR + "ts_types::type_to_ts_type::get_ts_type_of_type")
    helpers = [f for f in P.fns.values() if f.path.startswith(PR + "ts_types::type_to_ts_type::") and f.path != wrap.path and f.kind == "Fn"
               and "::{closure" not in f.path]
    if len(helpers) != 1:
        raise AnchorMissing("nullability helper of get_ts_type_of_type: %s" % [h.path for h in helpers])
    impl = helpers[0]
    if (impl.sig_output or "").startswith("("):
        # bottom-up: returns (type, nullable)
        nulltable_bottom_up(P, R, "R09-a", impl, wrap, "Type")
    elif any(t == "bool" for t in impl.sig_inputs):
        # top-down: a flag is passed downwards
        flag = [p.get("name") for p, t in zip(impl.params, impl.sig_inputs) if t == "bool"][0]
        root = [c for c in wrap.walk() if c.get("k") == "Call" and call_name(c) == impl.path]
        idx = [i for i, p in enumerate(impl.params) if p.get("name") == flag][0]
        v = lit_value(root[0]["args"][idx]) if root else None
        R.check("R09-a", "nulltable:entry", v is not None, "root flag is a constant", "the root nullability flag is not a constant", loc=wrap.loc())
        nulltable_top_down(P, R, "R09-a", impl, "Type", flag, flag_means_nonnull=(v is False), wrap_kinds=("Named", "List"))
    else:
        R.undecided("R09-a", "nulltable:" + short(impl.path), "unrecognised shape of the nullability helper", loc=impl.loc())
    # who uses it: variables, input object fields, object fields, resolver args/results
    users = sorted(short(c) for c in P.callers_of(wrap.path) if "::tests" not in c)
    R.check("R09-a", "nulltable-users", len(users) >= 4, "used by %s" % users, "get_ts_type_of_type lost callers: %s" % users)


def r09b(P, R):
    f = P.fn(PR + "operation_type_printer::type_printer::get_type_for_variable_definitions")
    namespace_targets(P, R, "R09-b", f, "OperationInput", 1)
    all_elements(P, R, "R09-b", f, A + "variable::VariablesDefinition", "definitions", "declared variables")
    pv = Prov(f)
    keys = [n for n in f.walk() if n.get("k") == "Struct" and "rest" not in n and norm(n.get("adt", "")).endswith("ts_types::ObjectField")]
    R.floor("R09-b", "variable properties", len(keys), 1)
    for k in keys:
        key = [x for x in k["fields"] if x["name"] == "key"][0]["e"]
        ok = has_field(pv.atoms(key), A + "variable::Variable", "name")
        R.check("R09-b", "variable-key", ok, "property key = variable name", "the Variables property is not keyed by the variable's name", loc=f.loc())
        ro = lit_value([x for x in k["fields"] if x["name"] == "readonly"][0]["e"])
        R.check("R09-b", "variable-readonly", ro is True, "readonly", "variables are not readonly", loc=f.loc())
    # scalar declarations pick the type for the *current* target
    s = P.fn("<" + A + "type_system::ScalarTypeDefinition as " + PR + "schema_type_printer::type_printer::TypePrinter>::print_type")
    pvs = Prov(s)
    gets = [c for c in s.walk() if c.get("k") == "MethodCall" and (call_name(c) or "").endswith("ScalarTypeConfig::get_type")]
    R.floor("R09-b", "scalar get_type calls", len(gets), 1)
    for c in gets:
        ok = has_field(pvs.atoms(c["args"][0]), PR + "schema_type_printer::context::SchemaTypePrinterContext", "type_target")
        R.check("R09-b", "scalar-target", ok, "scalar alias uses get_type(context.type_target)",
                "scalar declarations take their TypeScript type for a fixed target instead of the namespace being printed", loc=s.loc())
    # ScalarTypeConfig::get_type table
    g = P.fn(CFG + "scalar_type::ScalarTypeConfig::get_type")
    want_sep = {"ResolverInput": "resolver_input", "ResolverOutput": "resolver_output", "OperationInput": "operation_input", "OperationOutput": "operation_output"}
    want_sr = {"ResolverInput": "receive", "ResolverOutput": "send", "OperationInput": "send", "OperationOutput": "receive"}
    pvg = Prov(g)
    found = 0
    for m in matches_on(g, "TypeTarget"):
        tab = variant_table(m)
        fields = {k: {x[2] for x in pvg.atoms(arm["body"]) if x[0] == "field"} for k, arm in tab.items()}
        allf = set().union(*fields.values()) if fields else set()
        want = want_sep if "resolver_input" in allf else (want_sr if "send" in allf else None)
        if want is None:
            continue
        found += 1
        for k, w in sorted(want.items()):
            R.check("R09-b", "scalar-table:%s:%s" % ("separate" if want is want_sep else "send-receive", k), fields.get(k) == {w}, "%s -> %s" % (k, w),
                    "ScalarTypeConfig::get_type maps target %s to %s (expected %s): the wrong direction's TypeScript type is used" % (k, sorted(fields.get(k) or []), w), loc=g.loc())
    R.floor("R09-b", "scalar target tables", found, 2)
    # @nitrogql_ts_type directive arguments -> the four fields (by name, not by position)
    gs = P.fn(PR + "schema_type_printer::context::get_scalar_types")
    pvd = Prov(gs)
    for m in matches_on_type(gs, "str"):
        for arm in m["arms"]:
            for lit in pat_lits(arm["pat"]):
                for asg in subnodes(arm["body"]):
                    if asg.get("k") == "Assign" and asg["l"].get("k") == "Path" and "local" in asg["l"]:
                        pvd.src.setdefault(asg["l"]["local"], []).append((None, frozenset({("armlit", lit)})))
    pvd._memo = {}
    ctor = [n for n in gs.walk() if n.get("k") == "Struct" and "rest" not in n and norm(n.get("adt", "")).endswith("SeparateScalarTypeConfig")]
    R.floor("R09-b", "directive-typed scalar construction", len(ctor), 1)
    want = {"resolver_input": "resolverInput", "resolver_output": "resolverOutput", "operation_input": "operationInput", "operation_output": "operationOutput"}
    for c in ctor:
        for fld in c["fields"]:
            lits = {x[1] for x in pvd.atoms(fld["e"]) if x[0] == "armlit"}
            R.check("R09-b", "directive-arg:" + fld["name"], lits == {want[fld["name"]]}, "%s <- @nitrogql_ts_type(%s:)" % (fld["name"], want[fld["name"]]),
                    "SeparateScalarTypeConfig.%s is filled from directive argument %s (expected `%s`): send and receive types of directive-typed "
                    "scalars are swapped" % (fld["name"], sorted(lits), want[fld["name"]]), loc=gs.loc())
    # config scalarTypes take precedence: `.or(directive)`
    R.check("R09-b", "scalar-precedence", any(c.get("k") == "MethodCall" and c["method"] == "or" for c in gs.walk()), "config scalarTypes override the directive",
            "precedence between scalarTypes and @nitrogql_ts_type changed", loc=gs.loc())


def coupling(P, R, rule, f, opt_adt, opt_field, tag):
    """`optional` and the `| undefined` union both derive from one flag = (!is_nonnull && option)"""
    pv = Prov(f)
    ofs = [n for n in f.walk() if n.get("k") == "Struct" and "rest" not in n and norm(n.get("adt", "")).endswith("ts_types::ObjectField")]
    R.floor(rule, "object fields in " + tag, len(ofs), 1)
    for o in ofs:
        opt = [x for x in o["fields"] if x["name"] == "optional"][0]["e"]
        a = pv.atoms(opt)
        ok = has_field(a, opt_adt, opt_field) and has_call(a, "Type::is_nonnull")
        R.check(rule, "optional-flag:" + tag, ok, "`optional` = option && !non-null",
                "%s: the `?` marker does not depend on both the declared nullability and the `%s` option: nullable inputs stay optional when "
                "the option is off (or required ones become optional)" % (f.path, opt_field), loc=f.loc())
        undef_ifs = [i for i in f.walk() if i.get("k") == "If" and any(norm(x.get("def", "")).endswith("TSType::Undefined") for x in subnodes(i["then"]) if x.get("k") == "Path")]
        R.floor(rule, "`| undefined` sites in " + tag, len(undef_ifs), 1)
        for i in undef_ifs:
            ca = pv.atoms(i["cond"])
            same = (i["cond"].get("k") == "Path" and opt.get("k") == "Path" and i["cond"].get("local") == opt.get("local"))
            R.check(rule, "undefined-coupled:" + tag, same or ({x for x in ca if x[0] in ("field", "call")} == {x for x in a if x[0] in ("field", "call")}),
                    "`| undefined` is added under the same flag as `?`", "%s adds `| undefined` under a different condition than the `?` marker" % f.path, loc=f.loc())


def declared_type_direct(P, R, rule, f, adt, tag):
    """the type handed to get_ts_type_of_type / tested with is_nonnull is the declared type itself: not a projection of it, and not
    dependent on the default value"""
    pv = Prov(f)
    wrap = PR + "ts_types::type_to_ts_type::get_ts_type_of_type"
    uses = [("converted", c["args"][0]) for c in f.walk() if c.get("k") == "Call" and call_name(c) == wrap]
    uses += [("tested non-null", c["recv"]) for c in f.walk() if c.get("k") == "MethodCall" and (call_name(c) or "").endswith("Type::is_nonnull")]
    R.floor(rule, "uses of the declared type in " + tag, len(uses), 2)
    for what, e in uses:
        a = pv.atoms(e)
        fields = {(x[1], x[2]) for x in a if x[0] == "field"}
        variants = sorted(x[1] for x in a if x[0] == "variant" and "::Type::" in x[1])
        extra = sorted(x for x in fields if x != (adt, "type") and not x[0].endswith(("VariablesDefinition", "InputObjectTypeDefinition", "ArgumentsDefinition")))
        R.check(rule, "declared-type-direct:%s:%s" % (tag, what.split()[0]), (adt, "type") in fields and not extra and not variants,
                "the type %s is exactly the declared `%s.type`" % (what, adt.split("::")[-1]),
                "%s: the type %s is not the declared type itself (also depends on %s%s): the printed nullability/optionality of an input "
                "differs from its declaration" % (f.path, what, extra, (" and on a match over " + ", ".join(variants)) if variants else ""), loc=f.loc())


def r09c(P, R):
    f = P.fn(PR + "operation_type_printer::type_printer::get_type_for_variable_definitions")
    coupling(P, R, "R09-c", f, OPT, "allow_undefined_as_optional_input", "variables")
    declared_type_direct(P, R, "R09-c", f, A + "variable::VariableDefinition", "variables")
    fast_equal_sound(P, R, "R09-c")
    g = P.fn("<" + A + "type_system::InputObjectTypeDefinition as " + PR + "schema_type_printer::type_printer::TypePrinter>::print_type")
    coupling(P, R, "R09-c", g, SOPT, "input_nullable_field_is_optional", "input-object")
    declared_type_direct(P, R, "R09-c", g, A + "type_system::InputValueDefinition", "input-object")
    all_elements(P, R, "R09-c", g, A + "type_system::InputObjectTypeDefinition", "fields", "input fields")
    e = P.fn("<" + A + "type_system::EnumTypeDefinition as " + PR + "schema_type_printer::type_printer::TypePrinter>::print_type")
    all_elements(P, R, "R09-c", e, A + "type_system::EnumTypeDefinition", "values", "enum members")
    pv = Prov(e)
    sl = [c for c in e.walk() if c.get("k") == "Call" and norm(c.get("callee", "")).endswith("TSType::StringLiteral")]
    ok = bool(sl) and has_field(pv.atoms(sl[0]["args"][0]), A + "type_system::EnumValueDefinition", "name")
    R.check("R09-c", "enum-literals", ok, "enum = union of its value names as string literals", "enum members are not its value names", loc=e.loc())


def r09d(P, R):
    C14P[0] = P
    table = {
        OPT: (P.fn(OPT + "::from_config"), {
            "allow_undefined_as_optional_input": ("GenerateTypeConfig", "allow_undefined_as_optional_input"),
            "variables_type_suffix": ("GenerateNameConfig", "variables_type_suffix"),
            "operation_result_type_suffix": ("GenerateNameConfig", "operation_result_type_suffix"),
            "fragment_type_suffix": ("GenerateNameConfig", "fragment_type_suffix"),
            "print_values": ("GenerateConfig", "mode"),
        }, {"base_options": "from OperationBasePrinterOptions::from_config (C14)", "schema_root_namespace": "fixed name `Schema`",
            "schema_source": "computed by the CLI from output paths", "typed_document_node_source": "fixed package name"}),
        SOPT: (P.fn(SOPT + "::from_config"), {
            "emit_schema_runtime": ("GenerateConfig", "emit_schema_runtime"),
            "input_nullable_field_is_optional": ("GenerateTypeConfig", "allow_undefined_as_optional_input"),
            "scalar_types": ("GenerateTypeConfig", "scalar_types"),
        }, {"schema_metadata_type": "fixed name"}),
    }
    for adt_path, (fc, wiring, not_configurable) in table.items():
        adt = P.adt(adt_path)
        w = wiring_of(P, fc, adt_path)
        # conditions guarding assignments (e.g. `if mode == Standalone { print_values = true }`)
        pv = Prov(fc)
        for i, (n, _) in enumerate(fc.nodes()):
            if n.get("k") == "Assign" and n["l"].get("k") == "Field" and norm(n["l"].get("adt")) == adt_path:
                for c in enclosing_contexts(fc, i):
                    if c[0] == "if-then":
                        from c14 import _cfg_fields
                        w.setdefault(n["l"]["field"], set()).update(_cfg_fields(pv.atoms(c[1]["cond"])))
        for fld in adt.fields():
            key = "wiring:%s.%s" % (adt_path.split("::")[-1], fld)
            if fld in not_configurable:
                R.holds("R09-d", key, "not configurable: " + not_configurable[fld], loc=fc.loc())
                continue
            exp = wiring.get(fld)
            if exp is None:
                R.undecided("R09-d", key, "option field `%s` has no entry in the wiring table" % fld, loc=fc.loc())
                continue
            got = {g for g in w.get(fld, set()) if g[0] != "<assigned>"}
            R.check("R09-d", key, got == {exp}, "`%s` <- config %s.%s" % (fld, exp[0], exp[1]),
                    "%s never derives `%s` from config %s.%s (it is wired to %s): the documented option has no effect on this printer"
                    % (fc.path, fld, exp[0], exp[1], sorted(got) or "nothing"), loc=fc.loc())
    # config keys accepted by the derived deserialisers (the derives live in anonymous consts: matched by content)
    accepted = []
    for f in P.fns.values():
        if f.derived and f.name == "visit_str" and f.path.startswith(("<" + CFG + "config::_", "<" + CFG + "parse_config::_")):
            ks = frozenset(n.get("v") for n in f.walk() if n.get("k") == "PatExpr" and n.get("lk") == "str")
            accepted.append(ks)
    R.floor("R09-d", "derived config deserialisers", len(accepted), 7)
    docs = dict(CONFIG_KEYS)
    docs["(root)"] = {"schema", "documents", "extensions"}
    docs["extensions"] = {"nitrogql"}
    docs["extensions.nitrogql"] = {"plugins", "generate"}
    for struct, keys in sorted(docs.items()):
        near = sorted(accepted, key=lambda a: -len(a & keys))[0] if accepted else frozenset()
        R.check("R09-d", "config-keys:" + struct, frozenset(keys) in accepted, "accepted keys %s" % sorted(keys),
                "no deserialiser accepts exactly the documented keys of %s %s; the closest accepts %s (missing %s, unknown %s): a documented "
                "option is silently ignored" % (struct, sorted(keys), sorted(near), sorted(keys - near), sorted(near - keys)))


RULES = [("R09-a", r09a), ("R09-b", r09b), ("R09-c", r09c), ("R09-d", r09d)]
EXPLANATION = (
    "Variables/input typing, structural clauses: (R09-a) the nullability table of get_ts_type_of_type (nullable unless Non-Null, list "
    "elements decided afresh; both bottom-up and top-down shapes understood); (R09-b) variables refer to the OperationInput namespace, "
    "are keyed by variable name and readonly, scalar aliases take get_type(context.type_target), the target tables of "
    "ScalarTypeConfig::get_type, @nitrogql_ts_type arguments reach the four fields by name, config overrides directive; (R09-c) "
    "`?` and `| undefined` derive from one flag = option && nullable, for variables and input-object fields; every input field and "
    "enum member is emitted; (R09-d) every option field of the two printers is wired to its config key (or listed as not "
    "configurable), and the derived deserialisers accept exactly the documented keys. Not decided: denotation of emitted types.")
ASSUMPTIONS = ["documented config keys transcribed from website docs (configuration/options)", "serde derive semantics (rename_all = camelCase)"]


def main(tier):
    return harness.run_property("C09", RULES, "other", EXPLANATION, ASSUMPTIONS, tier)
