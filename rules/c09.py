"""C09 — Variables types admit only coercible inputs and every explicit one (structural clauses)."""
import harness
from facts import (norm, call_name, short, subnodes, lit_value, matches_on, arm_variants, field_reads, peel_ty, lit_table,
                   matches_on_type, pat_lits)
from prov import Prov, has_field, has_call
from templates import variant_table, enclosing_contexts, inlined, method_chain, LOSSY_OR_REORDERING
from tsrules import nulltable_bottom_up, namespace_targets, fast_equal_sound
from c14 import wiring_of, stable_pred, sections, require_fields, _P as C14P

PR = "nitrogql_printer::"
A = "nitrogql_ast::"
CFG = "nitrogql_config_file::"
OPT = PR + "operation_type_printer::visitor::OperationTypePrinterOptions"
SOPT = PR + "schema_type_printer::printer::SchemaTypePrinterOptions"

# documented config keys (website/docs: configuration/options) -> the Config struct whose derived Deserialize must accept them
CONFIG_KEYS = {
    "GenerateConfig": {"mode", "schemaOutput", "serverGraphqlOutput", "resolversOutput", "schemaModuleSpecifier", "type", "name", "export", "emitSchemaRuntime"},
    "GenerateTypeConfig": {"scalarTypes", "allowUndefinedAsOptionalInput"},
    "GenerateNameConfig": {"operationResultTypeSuffix", "variablesTypeSuffix", "fragmentTypeSuffix", "capitalizeOperationNames", "queryVariableSuffix",
                           "mutationVariableSuffix", "subscriptionVariableSuffix", "fragmentVariableSuffix"},
    "GenerateExportConfig": {"defaultExportForOperation", "operationResultType", "variablesType"},
}


def _peel(e):
    while e.get("k") in ("AddrOf", "DropTemps", "Use", "Unary", "Cast") and "e" in e:
        if e.get("k") == "Unary" and e.get("op") not in ("Deref", None):
            break
        e = e["e"]
    return e


def _elem_ty(t):
    """element type of a Vec / slice / array type string (references peeled), else None"""
    t = peel_ty(t)
    for pre, close in (("alloc::vec::Vec<", ">"), ("[", "]")):
        if t.startswith(pre) and t.endswith(close):
            inner = t[len(pre):-1]
            return inner.split(";")[0].strip()
    return None


def all_elements(P, R, rule, fn, adt, field, what):
    """The collection `adt.field` is consumed completely.  A *traversal* is an iterator chain or a `for` loop that starts at the
    field itself or at a local/parameter of the same element type that derives from it (the collection handed to a helper).
    HOLDS when some traversal applies no dropping/truncating/reordering adaptor; VIOLATED when every traversal does (positive
    evidence: elements are dropped); UNDECIDED when no traversal is found (`fn` may be given with helpers inlined)."""
    key = "all:%s.%s@%s" % (adt.split("::")[-1], field, short(fn.path))
    a = P.adts.get(adt)
    want_elem = _elem_ty(a.field_types().get(field)) if a is not None and a.kind == "Struct" else None
    pv = Prov(fn)

    def is_source(e):
        e = _peel(e)
        if e.get("k") == "Field" and norm(e.get("adt")) == adt and e["field"] == field:
            return True
        if e.get("k") == "Path" and "local" in e and want_elem and _elem_ty(e.get("t")) == want_elem:
            return ("field", adt, field) in pv.data_atoms(e)
        return False
    STARTS = ("iter", "into_iter", "iter_mut", "drain", "chunks", "windows")
    complete, lossy = 0, []
    seen_inner = set()
    calls = [c for c in fn.walk() if c.get("k") == "MethodCall"]
    for c in calls:
        base, chain = method_chain(c)
        for x in chain[:-1]:
            seen_inner.add(id(x))
    for c in calls:
        if id(c) in seen_inner:
            continue   # only maximal chains
        base, chain = method_chain(c)
        names = [x["method"] for x in chain]
        if not is_source(base) or not names or names[0] not in STARTS:
            continue
        bad = [m for m in names if m in LOSSY_OR_REORDERING]
        if bad:
            lossy.append(bad)
        else:
            complete += 1
    for c in fn.walk():
        if c.get("k") == "Call" and c.get("x") == "desugar:ForLoop" and c.get("args") and is_source(c["args"][0]):
            complete += 1
    if complete:
        R.holds(rule, key, "every element of `%s` is emitted (%s)" % (field, what), loc=fn.loc())
    elif lossy:
        R.violated(rule, key, "%s applies %s to %s: some %s are dropped from the declaration" % (fn.path, lossy[0], field, what), loc=fn.loc())
    else:
        R.undecided(rule, key, "no traversal of `%s.%s` was found in %s or its same-crate helpers; whether every one of the %s is emitted is "
                    "not decided on this shape" % (adt.split("::")[-1], field, fn.path, what), loc=fn.loc())


def nulltable_bottom_up_struct(P, R, rule, impl, wrapper, ret_adt, flag):
    """style A': impl(ty) -> struct {type, flag: bool} (the tuple of style A with named members); the wrapper (or a method of the
    struct it calls) adds `| null` iff the flag.  Same table as style A: Named -> nullable, List -> nullable with elements decided
    afresh through the wrapper, NonNull -> not nullable with the inner flag overridden."""
    tag = short(impl.path)
    keep = stable_pred(lambda g: g.path not in (wrapper.path, impl.path))
    fi = inlined(P, impl, pred=keep)
    ms = matches_on(fi, "Type")
    if not ms:
        R.undecided(rule, "nulltable:" + tag, "no match over Type in %s" % impl.path, loc=impl.loc())
        return
    tab = variant_table(ms[0])
    R.check(rule, "nulltable:%s:kinds" % tag, set(tab) == {"Named", "List", "NonNull"}, "Named/List/NonNull handled",
            "%s handles wrappers %s" % (impl.path, sorted(tab)), loc=impl.loc())

    def flags(arm):
        """literal values given to the flag in the arm (struct literals of the result type, helper constructors inlined; `r.flag = lit`)"""
        out = []
        for x in subnodes(arm["body"]):
            if x.get("k") == "Struct" and "rest" not in x and norm(x.get("adt")) == ret_adt:
                out += [lit_value(fl["e"]) for fl in x["fields"] if fl["name"] == flag]
            elif x.get("k") == "Assign" and x["l"].get("k") == "Field" and norm(x["l"].get("adt")) == ret_adt and x["l"]["field"] == flag:
                out.append(lit_value(x["r"]))
        return out
    for kind, want in (("Named", True), ("List", True), ("NonNull", False)):
        arm = tab.get(kind)
        if arm is None:
            continue
        vals = flags(arm)
        key = "nulltable:%s:%s" % (tag, kind)
        if not vals or any(v is None for v in vals):
            R.undecided(rule, key, "%s: the %s arm does not set `%s` to a literal" % (impl.path, kind, flag), loc=impl.loc())
        else:
            R.check(rule, key, all(v is want for v in vals), "%s -> nullable=%s" % (kind, want),
                    "%s maps a %s type to nullable=%s; GraphQL types are nullable unless wrapped in Non-Null (expected %s): `| null` is %s"
                    % (impl.path, kind, vals, want, "lost" if want else "invented"), loc=impl.loc())
    arm = tab.get("List")
    if arm is not None:
        calls = [call_name(x) for x in subnodes(arm["body"]) if x.get("k") == "Call" and call_name(x) in (impl.path, wrapper.path)]
        R.check(rule, "nulltable:%s:list-element" % tag, calls == [wrapper.path],
                "list elements get their own `| null` through %s" % wrapper.name,
                "%s computes list elements via %s: the element's nullability is not decided on its own (wrapper-exact nullability lost at one depth)"
                % (impl.path, [short(c) for c in calls]), loc=impl.loc())
    arm = tab.get("NonNull")
    if arm is not None:
        rec = [x for x in subnodes(arm["body"]) if x.get("k") == "Call" and call_name(x) == impl.path]
        vals = flags(arm)
        if rec and vals and all(v is False for v in vals):
            R.holds(rule, "nulltable:%s:nonnull-discards" % tag, "NonNull recurses through the impl and overrides the inner flag", loc=impl.loc())
        else:
            R.undecided(rule, "nulltable:%s:nonnull-discards" % tag, "%s: how the NonNull arm treats the inner flag is not recognised" % impl.path, loc=impl.loc())
    # wrapper (with the struct's own methods inlined): `| null` under the flag, not under its negation
    wi = inlined(P, wrapper, pred=keep)
    pvw = Prov(wi)
    ok, seen = False, 0
    for i in wi.walk():
        if i.get("k") != "If":
            continue
        then_null = any(norm(x.get("def", "")).endswith("TSType::Null") for x in subnodes(i["then"]) if x.get("k") == "Path")
        else_null = "else" in i and any(norm(x.get("def", "")).endswith("TSType::Null") for x in subnodes(i["else"]) if x.get("k") == "Path")
        if not (then_null or else_null):
            continue
        seen += 1
        neg = any(x.get("k") == "Unary" and x.get("op") == "Not" for x in subnodes(i["cond"]))
        if then_null and not else_null and not neg and (ret_adt, flag) in _field_nodes(i["cond"]) | {(a[1], a[2]) for a in pvw.atoms(i["cond"]) if a[0] == "field"}:
            ok = True
    key = "nulltable:%s:wrapper" % short(wrapper.path)
    if not seen:
        R.undecided(rule, key, "no `if` adding TSType::Null was found in %s or the methods it calls" % wrapper.path, loc=wrapper.loc())
    else:
        R.check(rule, key, ok, "`| null` is added exactly when the flag says nullable", "%s does not add `| null` exactly when nullable" % wrapper.path, loc=wrapper.loc())


def nulltable_iterative(P, R, rule, wrapper):
    """style C: the wrappers of a type are collected and the TypeScript type is rebuilt in a loop with a mutable flag
    (`nullable`), `| null` being added by an `if flag { Union[.., Null] }` (possibly in a helper).  The invariant that every
    correct spelling shares — and that the wrong one-pass rewrites break — is that the flag is *reset for each list level*:
    the arm that builds the array sets the flag back to nullable after wrapping the element under the current flag, the other
    arm (Non-Null) clears it, it starts out nullable, and the final type is wrapped under it.  Not decided: that the loop visits
    the wrappers from the inside out (reported as one UNDECIDED instance).  Returns False when the shape is not this one."""
    wi = inlined(P, wrapper)
    pv = Prov(wi)
    tag = short(wrapper.path)

    def locals_of(e, seen=None):
        """locals an expression is (transitively, through let/param bindings) a copy of"""
        seen = set() if seen is None else seen
        st = [e]
        while st:
            x = st.pop()
            if isinstance(x, list):
                st.extend(x)
            elif isinstance(x, dict):
                if x.get("k") == "Path" and "local" in x:
                    if x["local"] not in seen:
                        seen.add(x["local"])
                        st.extend(src for src, _ in pv.src.get(x["local"], []) if src is not None)
                elif x.get("k") in ("DropTemps", "Use", "AddrOf", "Unary", "Cast"):
                    st.append(x.get("e"))
        return seen
    null_ifs = []
    for i, (n, _) in enumerate(wi.nodes()):
        if n.get("k") == "If":
            then_null = any(norm(x.get("def", "")).endswith("TSType::Null") for x in subnodes(n["then"]) if x.get("k") == "Path")
            else_null = "else" in n and any(norm(x.get("def", "")).endswith("TSType::Null") for x in subnodes(n["else"]) if x.get("k") == "Path")
            neg = any(x.get("k") == "Unary" and x.get("op") == "Not" for x in subnodes(n["cond"]))
            if then_null and not else_null and not neg:
                null_ifs.append((i, n, locals_of(n["cond"])))
    flags = [n for n in wi.walk() if n.get("k") == "Let" and n["pat"].get("k") == "Binding" and peel_ty(n["pat"].get("t")) == "bool"
             and "Mut" in str(n["pat"].get("mode")) and lit_value(n.get("init") or {}) is not None
             and any(n["pat"]["local"] in ls for _, _, ls in null_ifs)]
    if len(flags) != 1 or not null_ifs:
        return False
    F = flags[0]["pat"]["local"]
    assigns = [(i, n) for i, (n, _) in enumerate(wi.nodes()) if n.get("k") == "Assign" and n["l"].get("k") == "Path" and n["l"].get("local") == F]
    in_loop = [(i, n) for i, n in assigns if any(c[0] == "loop" for c in enclosing_contexts(wi, i))]
    if not in_loop:
        return False
    R.check(rule, "nulltable:%s:Named" % tag, lit_value(flags[0]["init"]) is True, "the innermost named type starts nullable",
            "%s starts the rebuilding with nullable=%s: a named type that is not wrapped in Non-Null loses `| null`" % (wrapper.path, lit_value(flags[0]["init"])), loc=wrapper.loc())
    # the arms of the loop's dispatch that touch the flag
    arms = {}
    for i, n in in_loop:
        arm = next((c[2] for c in enclosing_contexts(wi, i) if c[0] == "arm" and c[1] is not None and c[1].get("src") == "Normal"), None)
        if arm is not None:
            arms.setdefault(id(arm), (arm, []))[1].append(lit_value(n["r"]))
    # the arm(s) of the same dispatch that build an array, whether or not they touch the flag
    def builds_array(arm):
        return any(x.get("k") == "Call" and norm(x.get("callee", "")).endswith("TSType::Array") for x in subnodes(arm["body"]))
    for m in wi.walk():
        if m.get("k") == "Match" and m.get("src") == "Normal" and any(id(a) in arms for a in m["arms"]):
            for arm in m["arms"]:
                if id(arm) not in arms and builds_array(arm):
                    arms[id(arm)] = (arm, [])
    list_arms = [(a, v) for a, v in arms.values() if builds_array(a)]
    other_arms = [(a, v) for a, v in arms.values() if not builds_array(a)]
    if not list_arms:
        R.undecided(rule, "nulltable:%s:list-element" % tag, "no arm of the rebuilding loop builds a TSType::Array", loc=wrapper.loc())
    for a, vals in list_arms:
        R.check(rule, "nulltable:%s:list-element" % tag, vals == [True],
                "the flag is reset to nullable after each list level",
                "%s: the arm that wraps a list level %s: the nullability of the levels outside a list is decided by a flag left over from inside "
                "it (a Non-Null element makes the list itself lose `| null`, or the list's Non-Null leaks to its elements)"
                % (wrapper.path, "does not reset the nullability flag" if not vals else "sets the nullability flag to %s" % vals), loc=wrapper.loc())
        arrays = [x for x in subnodes(a["body"]) if x.get("k") == "Call" and norm(x.get("callee", "")).endswith("TSType::Array")]
        wrapped = any(F in ls and any(y is n for x in arrays for y in subnodes(x)) for _, n, ls in null_ifs)
        if wrapped:
            R.holds(rule, "nulltable:%s:List" % tag, "list elements get `| null` under the flag of their own level", loc=wrapper.loc())
        else:
            R.undecided(rule, "nulltable:%s:List" % tag, "how the element of a list level gets its `| null` was not recognised", loc=wrapper.loc())
    for a, vals in other_arms:
        R.check(rule, "nulltable:%s:NonNull" % tag, vals and all(v is False for v in vals), "Non-Null clears the flag",
                "%s: the Non-Null arm sets the nullability flag to %s" % (wrapper.path, vals), loc=wrapper.loc())
    final = [n for i, n, ls in null_ifs if F in ls and not any(c[0] == "loop" for c in enclosing_contexts(wi, i))]
    if final:
        R.holds(rule, "nulltable:%s:wrapper" % tag, "the outermost level gets `| null` under the flag", loc=wrapper.loc())
    else:
        R.undecided(rule, "nulltable:%s:wrapper" % tag, "no final `| null` under the flag outside the loop was found", loc=wrapper.loc())
    R.undecided(rule, "nulltable:%s:order" % tag, "iterative rebuilding: that the loop visits the wrappers from the innermost to the outermost is not "
                "decided by this rule", loc=wrapper.loc())
    return True


def r09a(P, R):
    from tsrules import nulltable_top_down
    from facts import AnchorMissing
    wrap = P.fn(PR + "ts_types::type_to_ts_type::get_ts_type_of_type")
    # the helper by role: the other function or associated function of the converter's module that dispatches on the GraphQL `Type`
    helpers = [f for f in P.fns.values() if f.path.startswith(PR + "ts_types::type_to_ts_type::") and f.path != wrap.path and f.kind in ("Fn", "AssocFn")
               and "::{closure" not in f.path and not f.derived and matches_on(f, "Type")]
    def users():
        us = sorted(short(c) for c in P.callers_of(wrap.path) if "::tests" not in c)
        if len(us) >= 4:
            R.holds("R09-a", "nulltable-users", "used by %s" % us)
        else:
            R.undecided("R09-a", "nulltable-users", "get_ts_type_of_type has fewer direct callers than on the pinned tree (%s): the printers may reach it "
                        "through a shared helper; which printers share the nullability table is not decided" % us)
    recursive = [h for h in helpers if h.path in P.callees_of(h)[0] or wrap.path in P.callees_of(h)[0]]
    if len(recursive) != 1:
        # no recursive helper: the conversion may be iterative (wrappers collected, type rebuilt in a loop under a flag)
        if nulltable_iterative(P, R, "R09-a", wrap):
            users()
            return
        raise AnchorMissing("nullability helper of get_ts_type_of_type: %s" % [h.path for h in helpers])
    impl = recursive[0]
    if (impl.sig_output or "").startswith("(") and "bool" in impl.sig_output:
        # bottom-up: returns (type, nullable)
        nulltable_bottom_up(P, R, "R09-a", impl, wrap, "Type")
    elif any(t == "bool" for t in impl.sig_inputs):
        # top-down: a flag is passed downwards
        flag = [p.get("name") for p, t in zip(impl.params, impl.sig_inputs) if t == "bool"][0]
        root = [c for c in wrap.walk() if c.get("k") == "Call" and call_name(c) == impl.path]
        idx = [i for i, p in enumerate(impl.params) if p.get("name") == flag][0]
        v = lit_value(root[0]["args"][idx]) if root else None
        R.check("R09-a", "nulltable:entry", v is not None, "root flag is a constant", "the root nullability flag is not a constant", loc=wrap.loc())
        nulltable_top_down(P, R, "R09-a", impl, "Type", flag, flag_means_nonnull=(v is False), wrap_kinds=("Named", "List"))
    else:
        ret = P.adts.get((impl.sig_output or "").split("<")[0])
        bools = [n for n, t in ret.field_types().items() if t == "bool"] if ret is not None and ret.kind == "Struct" else []
        if len(bools) == 1 and len(ret.fields()) == 2:
            nulltable_bottom_up_struct(P, R, "R09-a", impl, wrap, ret.path, bools[0])
        else:
            R.undecided("R09-a", "nulltable:" + short(impl.path), "unrecognised shape of the nullability helper", loc=impl.loc())
    # who uses it: variables, input object fields, object fields, resolver args/results
    users()


def _field_nodes(e):
    """(adt, field) of the field projections written in an expression (virtually inlined callee bodies are not entered)"""
    out, st = set(), [e]
    while st:
        n = st.pop()
        if isinstance(n, list):
            st.extend(n)
        elif isinstance(n, dict):
            if n.get("k") == "Field" and n.get("adt"):
                out.add((norm(n["adt"]), n["field"]))
            st.extend(v for kk, v in n.items() if kk != "inl" and isinstance(v, (dict, list)))
    return out


def trace_tags(pv, e, ftags, _seen=None, names=()):
    """literal tags reaching expression `e`: tags put on locals (("armlit", L) extra atoms) and tags of struct fields (`ftags`:
    (adt, field) -> literals) that `e` projects — following local bindings, but *field-sensitively*: a projection `x.f` of a tagged
    field contributes the tags of f only, not everything `x` was built from; inlined callee bodies are entered only through the
    locals they bind."""
    _seen = _seen if _seen is not None else set()
    out, st = set(), [e]
    while st:
        n = st.pop()
        if isinstance(n, list):
            st.extend(n)
            continue
        if not isinstance(n, dict):
            continue
        k = n.get("k")
        if k == "Lit" and n.get("lk") == "str" and n.get("v") in names:
            out.add(n["v"])   # the name is passed as a literal (look-up by name: `arg("resolverInput")`)
            continue
        if k == "Field" and n.get("adt") and (norm(n["adt"]), n["field"]) in ftags:
            out |= ftags[(norm(n["adt"]), n["field"])]
            continue
        if k == "Path" and "local" in n:
            lid = n["local"]
            if lid in _seen:
                continue
            _seen.add(lid)
            for src, extra in pv.src.get(lid, []):
                out |= {x[1] for x in extra if x[0] == "armlit"}
                if src is not None:
                    out |= trace_tags(pv, src, ftags, _seen, names)
            continue
        if k == "Closure":
            st.append(n.get("body"))
            continue
        st.extend(v for kk, v in n.items() if kk != "inl" and isinstance(v, (dict, list)))
    return out


def scalar_target_table(P, g):
    """{(config variant, target): set of leaf fields} read out of ScalarTypeConfig::get_type with same-crate helpers inlined.
    Two spellings are understood: a `match target` whose arms read the fields of the variant's payload directly (nested in, or
    nesting, the match over the config), and a `match target` that selects a field of a *view* struct which another match over the
    config fills per variant (struct literal per arm).  -> (table, number of `match target` tables found)"""
    CFGS = CFG + "scalar_type::"
    LEAF = {CFGS + "SendReceiveScalarTypeConfig": "SendReceive", CFGS + "SeparateScalarTypeConfig": "Separate"}
    # every selector of the module is read (get_type, a selector on the four-slot view, ..): they must all give the same table
    mods = [inlined(P, f) for f in P.fns.values() if f.path.startswith(CFGS) and not f.derived and "::tests" not in f.path
            and f.kind in ("Fn", "AssocFn") and f.path != g.path]
    mods.insert(0, inlined(P, g))
    # view structs: struct literals built in an arm of a match over ScalarTypeConfig -> {(view adt, view field): {variant: leaf fields}}
    view = {}
    for gi in mods:
        for i, (n, _) in enumerate(gi.nodes()):
            if not (n.get("k") == "Struct" and "rest" not in n and norm(n.get("adt", "")) not in LEAF):
                continue
            variant = None
            for c in enclosing_contexts(gi, i):
                if c[0] == "arm" and c[1] is not None and peel_ty(c[1]["scrut"].get("t")).split("<")[0].endswith("::ScalarTypeConfig"):
                    v, _c = arm_variants({"arms": [c[2]]})
                    if len(v) == 1:
                        variant = sorted(v)[0]
            if variant is None:
                continue
            for fld in n["fields"]:
                leaves = {(LEAF[a], f) for a, f in _field_nodes(fld["e"]) if a in LEAF}
                view.setdefault((norm(n["adt"]), fld["name"]), {}).setdefault(variant, set()).update(x[1] for x in leaves if x[0] == variant)
    table, found = {}, 0
    ALL = ("ResolverInput", "ResolverOutput", "OperationInput", "OperationOutput")
    seen_matches = set()
    for gi in mods:
        for m in gi.walk():
            if m.get("k") != "Match" or m.get("src") != "Normal":
                continue
            mk = (m.get("s", {}).get("lo") if isinstance(m.get("s"), dict) else None, str(m.get("s")))
            hit = False
            if m["scrut"].get("k") == "Tup":
                # one flat `match (config, target)`: each arm names the target(s) in its tuple pattern and projects a field of the payload
                it = [j for j, e in enumerate(m["scrut"]["es"]) if peel_ty(e.get("t")).endswith("::TypeTarget")]
                if len(it) != 1:
                    continue
                for arm in m["arms"]:
                    pat = arm["pat"]
                    while pat.get("k") in ("Ref", "Deref", "Box"):
                        pat = pat["p"]
                    if pat.get("k") != "Tuple" or len(pat.get("ps", [])) != len(m["scrut"]["es"]) or "guard" in arm:
                        continue
                    tv, catch = arm_variants({"arms": [{"pat": pat["ps"][it[0]]}]})
                    for x in _field_nodes(arm["body"]):
                        if x[0] in LEAF:
                            for t in (ALL if catch else sorted(tv)):
                                table.setdefault((LEAF[x[0]], t), set()).add(x[1])
                            hit = True
            elif peel_ty(m["scrut"].get("t")).endswith("::TypeTarget"):
                for target, arm in variant_table(m).items():
                    if target == "_":
                        continue
                    # the fields the arm itself projects (not what the projected struct was built from)
                    for x in _field_nodes(arm["body"]):
                        if x[0] in LEAF:
                            table.setdefault((LEAF[x[0]], target), set()).add(x[1])
                            hit = True
                        elif x in view:
                            for variant, leaves in view[x].items():
                                table.setdefault((variant, target), set()).update(leaves)
                            hit = True
            if hit and mk not in seen_matches:
                seen_matches.add(mk)
                found += 1
    return table, found


def bag_renamer(P, g):
    """the function that renames schema types against the identifier bag built by `g`: the anchored make_local_type_names, else —
    by role — the unique non-test caller of `g`"""
    from facts import AnchorMissing
    ml0 = P.fn(PR + "schema_type_printer::context::make_local_type_names", required=False)
    if ml0 is None:
        users = [P.fns[c] for c in P.callers_of(g.path) if c in P.fns and "::tests" not in c and not P.fns[c].derived and P.fns[c].kind in ("Fn", "AssocFn")]
        if len(users) != 1:
            raise AnchorMissing("the function that renames schema types against the identifier bag (callers of get_bag_of_identifiers: %s)" % [u.path for u in users])
        ml0 = users[0]
    return ml0


def bag_all_targets(P, R, rule):
    """The identifier bag (against which schema type names are renamed) covers the scalar mappings of *all four* targets: the
    module-level alias `export type X = ...` is shared by every namespace, so a clash in any target's mapping must rename X
    everywhere.  Shared by C09 (the `__OperationInput` aliases that Variables types refer to) and C10."""
    from facts import node_callees
    g = P.fn(PR + "schema_type_printer::context::get_bag_of_identifiers")
    ml0 = bag_renamer(P, g)
    gi = inlined(P, g)

    def calls(suffix):
        return any(p and p.endswith(suffix) for n in gi.walk() for pair in node_callees(n) for p in pair)
    tt_params = [short(f.path) for f in (g, ml0) for t in f.sig_inputs if "TypeTarget" in t]
    if calls("ScalarTypeConfig::get_type") or tt_params:
        R.violated(rule, "bag-all-targets", "the identifier bag is built per target (%s): a schema type whose name occurs only in another target's scalar mapping is not renamed, "
                   "and the shared module-level alias of that name shadows the global identifier inside that target's namespace"
                   % (tt_params or "get_type(target) instead of type_names()"), loc=g.loc())
    elif calls("ScalarTypeConfig::type_names"):
        R.holds(rule, "bag-all-targets", "the bag is built from ScalarTypeConfig::type_names() (every target's mapping)", loc=g.loc())
    else:
        R.undecided(rule, "bag-all-targets", "get_bag_of_identifiers calls neither ScalarTypeConfig::type_names nor get_type; which mappings feed the bag "
                    "is not decided", loc=g.loc())


def rename_for_every_kind(P, R, rule):
    """A schema type is renamed (declared under a temporary local name) iff its name is in the identifier bag — whatever its
    *kind*: an object, enum or input type named like an identifier of some scalar's TypeScript text shadows that identifier
    inside the namespace just as a scalar would.  The membership test on the bag must therefore not sit under a condition
    that selects definitions by kind (an arm or guard of a match over TypeDefinition, an `if let`/`matches!` on one of its
    variants)."""
    g = P.fn(PR + "schema_type_printer::context::get_bag_of_identifiers")
    ml0 = bag_renamer(P, g)
    ml = inlined(P, ml0, pred=stable_pred(lambda x: x.path != g.path))
    pv = Prov(ml)
    KIND = A + "type_system::TypeDefinition::"

    def kinds_in(x):
        out = set()
        for y in subnodes(x):
            d = norm(y.get("ctor_of") or y.get("def") or "") if y.get("k") in ("TupleStruct", "Struct", "PatExpr", "Path") else ""
            if d.startswith(KIND) and (y.get("k") != "Path"):
                out.add(d[len(KIND):].split("::")[0])
        return out
    nodes = ml.nodes()
    tests = [i for i, (c, _) in enumerate(nodes) if c.get("k") == "MethodCall" and c["method"] in ("contains", "contains_key", "get", "binary_search")
             and has_call(pv.deep_atoms(c["recv"]), "context::get_bag_of_identifiers")]
    if not tests:
        R.undecided(rule, "rename-every-kind", "no membership test on the identifier bag was recognised in %s" % ml0.path, loc=ml0.loc())
        return
    for i in tests:
        kinds = set()
        child, p = nodes[i][0], nodes[i][1]
        while p >= 0:
            x = nodes[p][0]
            k = x.get("k")
            if k == "Arm":
                kinds |= kinds_in(x["pat"])
            elif k == "If" and child is not x.get("cond"):
                kinds |= kinds_in(x["cond"])
            elif k == "Binary" and x.get("op") in ("&&", "||"):
                # the other operand of the same condition (`matches!(def, Kind(_)) && bag.contains(..)`)
                for side in ("l", "r"):
                    if isinstance(x.get(side), dict) and x[side] is not child:
                        kinds |= kinds_in(x[side])
            child, p = x, nodes[p][1]
        R.check(rule, "rename-every-kind", not kinds, "the bag is consulted for definitions of every kind",
                "%s consults the identifier bag only for definitions of kind %s: a type of another kind whose name is an identifier of a "
                "scalar's TypeScript type keeps its bare name and shadows that identifier inside the namespace (the scalar's alias then refers "
                "to the schema type instead of the global type)" % (ml0.path, sorted(kinds)), loc=ml0.loc())


def scalar_map_precedence(P, R, rule):
    """The map scalar name -> TypeScript type of the schema printer options is filled from two sources, the built-in scalars (the
    defaults) and the configured `scalarTypes`; in a map, the entry written *later* wins, and the documented precedence is that a
    configured entry overrides a built-in one.  Read from the order of the two sources wherever they are combined: `a.chain(b)`
    (b later), `m.extend(b)` / `m.insert(..)` on a map that already holds a (b later)."""
    require_fields(P, (SOPT, "scalar_types"), (CFG + "config::GenerateTypeConfig", "scalar_types"))
    fc = P.fn(SOPT + "::from_config")
    fi = inl(P, fc)
    pv = Prov(fi)

    def cls(e):
        a = pv.atoms(e)
        cfg = any(x[0] == "field" and x[1] == CFG + "config::GenerateTypeConfig" and x[2] == "scalar_types" for x in a)
        dflt = any(x[0] in ("call", "def") and (x[1].endswith("get_builtin_scalar_types") or (x[1].startswith("<" + SOPT) and x[1].endswith("::default"))) for x in a)
        return "config" if cfg and not dflt else ("builtin" if dflt and not cfg else None)
    pairs = []
    for n in fi.walk():
        if n.get("k") == "MethodCall" and n["method"] in ("chain", "extend", "insert", "extend_from_slice", "append") and n["args"]:
            first, later = cls(n["recv"]), cls(n["args"])
            if first and later and first != later:
                pairs.append((first, later, n["method"]))
    bad = [p for p in pairs if p[1] == "builtin"]
    if bad:
        R.violated(rule, "scalar-map-precedence", "%s combines the configured scalarTypes with the built-in scalars by `%s` with the built-ins *after* the "
                   "configured entries: in the resulting map the later entry wins, so a built-in mapping (ID, String, ..) overrides what the "
                   "user configured for that scalar" % (fc.path, bad[0][2]), loc=fc.loc())
    elif pairs:
        R.holds(rule, "scalar-map-precedence", "configured scalarTypes are written after the built-in scalars (and override them)", loc=fc.loc())
    else:
        R.undecided(rule, "scalar-map-precedence", "how %s combines the built-in scalars with the configured scalarTypes was not recognised" % fc.path, loc=fc.loc())


def r09b(P, R):
    def _part0():
        require_fields(P, (A + "variable::Variable", "name"), (A + "variable::VariableDefinition", "type"), (A + "variable::VariablesDefinition", "definitions"))
        f0 = P.fn(PR + "operation_type_printer::type_printer::get_type_for_variable_definitions")
        f = inl(P, f0)
        pv = Prov(f)
        namespace_targets(P, R, "R09-b", f, "OperationInput", 1)
        all_elements(P, R, "R09-b", f, A + "variable::VariablesDefinition", "definitions", "declared variables")
        # the members of the Variables type: ObjectField literals whose type derives from a variable's declared type
        keys = [n for n in f.walk() if n.get("k") == "Struct" and "rest" not in n and norm(n.get("adt", "")).endswith("ts_types::ObjectField")
                and any(y["name"] == "type" and has_field(pv.deep_atoms(y["e"]), A + "variable::VariableDefinition", "type") for y in n["fields"])]
        R.floor("R09-b", "variable properties", len(keys), 1)
        for k in keys:
            flds = {x["name"]: x["e"] for x in k["fields"]}
            if "key" in flds:
                ok = has_field(pv.deep_atoms(flds["key"]), A + "variable::Variable", "name")
                R.check("R09-b", "variable-key", ok, "property key = variable name", "the Variables property is not keyed by the variable's name", loc=f.loc())
            if "readonly" in flds:
                ro = lit_value(flds["readonly"])
                if ro is None:
                    opts = sorted({x[2] for x in pv.deep_atoms(flds["readonly"]) if x[0] == "field" and x[1] == OPT})
                    if opts:
                        R.holds("R09-b", "variable-readonly", "readonly as the printer option `%s` says (configurable)" % "`, `".join(opts), loc=f.loc())
                    else:
                        R.undecided("R09-b", "variable-readonly", "`readonly` of a Variables property is neither a literal nor a printer option", loc=f.loc())
                else:
                    R.check("R09-b", "variable-readonly", ro is True, "readonly", "variables are not readonly", loc=f.loc())

    def _part1():
        # scalar declarations pick the type for the *current* target
        require_fields(P, (PR + "schema_type_printer::context::SchemaTypePrinterContext", "type_target"))
        s = inl(P, P.fn("<" + A + "type_system::ScalarTypeDefinition as " + PR + "schema_type_printer::type_printer::TypePrinter>::print_type"))
        pvs = Prov(s)
        # the selector by role: a function of the config crate's scalar_type module that is handed a TypeTarget
        gets = []
        for c in s.walk():
            if c.get("k") in ("MethodCall", "Call") and (call_name(c) or "").startswith(CFG + "scalar_type::"):
                targs = [a for a in c["args"] if peel_ty(a.get("t")).endswith("::TypeTarget")]
                if targs:
                    gets.append((c, targs[0]))
        R.floor("R09-b", "scalar get_type calls", len(gets), 1)
        for c, targ in gets:
            ok = has_field(pvs.deep_atoms(targ), PR + "schema_type_printer::context::SchemaTypePrinterContext", "type_target")
            R.check("R09-b", "scalar-target", ok, "scalar alias uses get_type(context.type_target)",
                    "scalar declarations take their TypeScript type for a fixed target instead of the namespace being printed", loc=s.loc())

    def _part2():
        # ScalarTypeConfig::get_type table
        g = P.fn(CFG + "scalar_type::ScalarTypeConfig::get_type")
        want = {"Separate": {"ResolverInput": "resolver_input", "ResolverOutput": "resolver_output", "OperationInput": "operation_input", "OperationOutput": "operation_output"},
                "SendReceive": {"ResolverInput": "receive", "ResolverOutput": "send", "OperationInput": "send", "OperationOutput": "receive"}}
        for variant, cfg in (("Separate", "SeparateScalarTypeConfig"), ("SendReceive", "SendReceiveScalarTypeConfig")):
            require_fields(P, *[(CFG + "scalar_type::" + cfg, f) for f in set(want[variant].values())])
        table, found = scalar_target_table(P, g)
        for variant, tag in (("Separate", "separate"), ("SendReceive", "send-receive")):
            for k, w in sorted(want[variant].items()):
                got = table.get((variant, k))
                key = "scalar-table:%s:%s" % (tag, k)
                if not got:
                    R.undecided("R09-b", key, "no arm of a match over TypeTarget reachable from ScalarTypeConfig::get_type selects a field of the %s "
                                "config for target %s; the table is not decided on this shape" % (variant, k), loc=g.loc())
                else:
                    R.check("R09-b", key, got == {w}, "%s -> %s" % (k, w),
                            "ScalarTypeConfig::get_type maps target %s to %s (expected %s): the wrong direction's TypeScript type is used" % (k, sorted(got), w), loc=g.loc())
        R.floor("R09-b", "scalar target tables", found, 1)

    def _part3():
        # @nitrogql_ts_type directive arguments -> the four fields (by name, not by position)
        require_fields(P, (SOPT, "scalar_types"), *[(CFG + "scalar_type::SeparateScalarTypeConfig", f)
                                                    for f in ("resolver_input", "resolver_output", "operation_input", "operation_output")])
        gs0 = P.fn(PR + "schema_type_printer::context::get_scalar_types")
        gs = inl(P, gs0)
        pvd = Prov(gs)
        ftags = {}   # (adt, field) assigned in an arm of the match over the argument name -> literals of that arm
        for m in matches_on_type(gs, "str"):
            for arm in m["arms"]:
                for lit in pat_lits(arm["pat"]):
                    for asg in subnodes(arm["body"]):
                        if asg.get("k") != "Assign":
                            continue
                        if asg["l"].get("k") == "Path" and "local" in asg["l"]:
                            pvd.src.setdefault(asg["l"]["local"], []).append((None, frozenset({("armlit", lit)})))
                        elif asg["l"].get("k") == "Field" and asg["l"].get("adt"):
                            ftags.setdefault((norm(asg["l"]["adt"]), asg["l"]["field"]), set()).add(lit)
        pvd._memo = {}
        want = {"resolver_input": "resolverInput", "resolver_output": "resolverOutput", "operation_input": "operationInput", "operation_output": "operationOutput"}
        SEP = CFG + "scalar_type::SeparateScalarTypeConfig"
        # construction sites: struct literals in get_scalar_types (helpers of the crate inlined), and calls of a workspace constructor
        # function of the config struct — its parameters reach the fields *by position*, the call site passes values *by position*:
        # two tables that must agree.  -> [{field: expression in get_scalar_types}]
        ctor = [{fld["name"]: fld["e"] for fld in n["fields"]} for n in gs.walk()
                if n.get("k") == "Struct" and "rest" not in n and norm(n.get("adt", "")) == SEP]
        for c in gs.walk():
            if c.get("k") not in ("Call", "MethodCall") or "inl" in c:
                continue
            g = P.fns.get(call_name(c) or "")
            if g is None or g.derived or peel_ty(g.sig_output).split("<")[0] != SEP:
                continue
            from prov import canon_params
            pvg = Prov(g)
            pnames = canon_params(g)
            args = ([c["recv"]] if c.get("k") == "MethodCall" else []) + c["args"]
            for lit in (n for n in g.walk() if n.get("k") == "Struct" and "rest" not in n and norm(n.get("adt", "")) == SEP):
                site = {}
                for fld in lit["fields"]:
                    ps = [x[1] for x in pvg.atoms(fld["e"]) if x[0] == "param"]
                    if len(ps) == 1 and ps[0] in pnames and pnames.index(ps[0]) < len(args):
                        site[fld["name"]] = args[pnames.index(ps[0])]
                    else:
                        site[fld["name"]] = None
                ctor.append(site)
        R.floor("R09-b", "directive-typed scalar construction", len(ctor), 1)
        for site in ctor:
            for name, e in site.items():
                if name not in want:
                    continue
                lits = trace_tags(pvd, e, ftags, names=set(want.values())) if e is not None else set()
                if not lits:
                    R.undecided("R09-b", "directive-arg:" + name, "the value of SeparateScalarTypeConfig.%s was not traced back to a directive argument "
                                "name (an arm of a match over the names, or a look-up by literal name)" % name, loc=gs.loc())
                    continue
                R.check("R09-b", "directive-arg:" + name, lits == {want[name]}, "%s <- @nitrogql_ts_type(%s:)" % (name, want[name]),
                        "SeparateScalarTypeConfig.%s is filled from directive argument %s (expected `%s`): send and receive types of directive-typed "
                        "scalars are swapped" % (name, sorted(lits), want[name]), loc=gs.loc())
        # config scalarTypes take precedence over the directive: `config.or(directive)`
        SOPTS = (SOPT, "scalar_types")

        def source(e):
            a = pvd.atoms(e)
            from_cfg = any(x[0] == "field" and (x[1], x[2]) == SOPTS for x in a)
            from_dir = any((x[0] == "lit" and x[1] == "nitrogql_ts_type") or (x[0] == "ctor" and x[1].endswith("SeparateScalarTypeConfig")) for x in a)
            return "config" if from_cfg and not from_dir else ("directive" if from_dir and not from_cfg else None)
        verdicts = []
        for c in gs.walk():
            if c.get("k") == "MethodCall" and c["method"] in ("or", "or_else", "unwrap_or", "unwrap_or_else", "xor") and c["args"]:
                first, second = source(c["recv"]), source(c["args"][0])
                if first and second and first != second:
                    verdicts.append(first)
        if "directive" in verdicts:
            R.violated("R09-b", "scalar-precedence", "%s takes the @nitrogql_ts_type directive first and falls back to the `scalarTypes` config: the "
                       "documented precedence (config overrides directive) is reversed" % gs0.path, loc=gs.loc())
        elif verdicts:
            R.holds("R09-b", "scalar-precedence", "config scalarTypes override the directive", loc=gs.loc())
        else:
            R.undecided("R09-b", "scalar-precedence", "no `config.or(directive)`-like combination of the two sources of a scalar's TypeScript type was "
                        "recognised in %s" % gs0.path, loc=gs.loc())

    sections(R, "R09-b", ("variables", _part0), ("scalar-target", _part1), ("scalar-table", _part2), ("directive-scalars", _part3), ("clash-bag", lambda: bag_all_targets(P, R, "R09-b")), ("clash-rename", lambda: rename_for_every_kind(P, R, "R09-b")), ("scalar-map", lambda: scalar_map_precedence(P, R, "R09-b")))


def printer_logic(g):
    """inlining predicate: helpers of the printers, but not the TypeScript type library `ts_types` (generic constructors such as
    TSType::object, and the GraphQL-type -> TS-type converter whose recursion is R09-a's subject)"""
    return not g.path.startswith((PR + "ts_types::", "<" + PR + "ts_types::"))


def inl(P, f):
    """`f` with the printer-logic helpers of its crate virtually inlined"""
    return inlined(P, f, pred=printer_logic)


def coupling(P, R, rule, f, opt_adt, opt_field, tag, key_field):
    """`optional` and the `| undefined` union both derive from one flag = (!is_nonnull && option); `f` is looked at with its
    same-crate helpers inlined.  The members concerned are the ObjectField literals keyed by `key_field` (the name of the
    variable / input field), whatever other object types the helpers build."""
    require_fields(P, (opt_adt, opt_field), key_field, (PR + "ts_types::ObjectField", "key"), (PR + "ts_types::ObjectField", "optional"))
    P.fn(A + "type::Type::is_nonnull")
    f = inl(P, f)
    pv = Prov(f)
    ofs = [n for n in f.walk() if n.get("k") == "Struct" and "rest" not in n and norm(n.get("adt", "")).endswith("ts_types::ObjectField")
           and any(y["name"] == "key" and has_field(pv.deep_atoms(y["e"]), key_field[0], key_field[1]) for y in n["fields"])]
    R.floor(rule, "object fields in " + tag, len(ofs), 1)
    undef_ifs = [i for i in f.walk() if i.get("k") == "If" and any(norm(x.get("def", "")).endswith("TSType::Undefined") for x in subnodes(i["then"]) if x.get("k") == "Path")]
    for o in ofs:
        opts = [x for x in o["fields"] if x["name"] == "optional"]
        if not opts:
            continue
        opt = opts[0]["e"]
        a = pv.deep_atoms(opt)
        ok = has_field(a, opt_adt, opt_field) and has_call(a, "Type::is_nonnull")
        R.check(rule, "optional-flag:" + tag, ok, "`optional` = option && !non-null",
                "%s: the `?` marker does not depend on both the declared nullability and the `%s` option: nullable inputs stay optional when "
                "the option is off (or required ones become optional)" % (f.path, opt_field), loc=f.loc())
        R.floor(rule, "`| undefined` sites in " + tag, len(undef_ifs), 1)
        for i in undef_ifs:
            ca = pv.deep_atoms(i["cond"])
            same = (i["cond"].get("k") == "Path" and opt.get("k") == "Path" and i["cond"].get("local") == opt.get("local"))
            R.check(rule, "undefined-coupled:" + tag, same or ({x for x in ca if x[0] in ("field", "call")} == {x for x in a if x[0] in ("field", "call")}),
                    "`| undefined` is added under the same flag as `?`", "%s adds `| undefined` under a different condition than the `?` marker" % f.path, loc=f.loc())


def declared_type_direct(P, R, rule, f, adt, tag):
    """the type handed to get_ts_type_of_type / tested with is_nonnull is the declared type itself: not a projection of it (a
    field of a `Type` wrapper, a match over `Type`), and not dependent on another field of the same definition (its default value).
    How the definition itself is reached (iterator, `for` loop, helper parameter) plays no role."""
    require_fields(P, (adt, "type"))
    f = inl(P, f)
    pv = Prov(f)
    wrap = P.fn(PR + "ts_types::type_to_ts_type::get_ts_type_of_type").path
    uses = [("converted", c["args"][0]) for c in f.walk() if c.get("k") == "Call" and call_name(c) == wrap and c["args"]]
    uses += [("tested non-null", c["recv"]) for c in f.walk() if c.get("k") == "MethodCall" and (call_name(c) or "").endswith("Type::is_nonnull")]
    R.floor(rule, "uses of the declared type in " + tag, len(uses), 2)
    for what, e in uses:
        a = pv.atoms(e)
        fields = {(x[1], x[2]) for x in a if x[0] == "field"}
        variants = sorted(x[1] for x in a if x[0] == "variant" and "::Type::" in x[1])
        extra = sorted(x for x in fields if (x[0] == adt and x[1] != "type") or x[0].startswith(A + "type::"))
        key = "declared-type-direct:%s:%s" % (tag, what.split()[0])
        if extra or variants:
            R.violated(rule, key, "%s: the type %s is not the declared type itself (also depends on %s%s): the printed nullability/optionality of an input "
                       "differs from its declaration" % (f.path, what, extra, (" and on a match over " + ", ".join(variants)) if variants else ""), loc=f.loc())
        elif (adt, "type") in fields:
            R.holds(rule, key, "the type %s is exactly the declared `%s.type`" % (what, adt.split("::")[-1]), loc=f.loc())
        else:
            R.undecided(rule, key, "%s: the type %s was not traced back to `%s.type`" % (f.path, what, adt.split("::")[-1]), loc=f.loc())


def member_type_pure(P, R, rule, f, adt, tag):
    """The TypeScript type given to a member (variable, input field, argument) is a function of the member's *declared type* (and of
    printer options) only: the expression that becomes the member's type — the `type` of an ObjectField literal, or the TSType
    component of a (key, type, description) tuple — must not depend on another field of the same definition (its default value, its
    directives, ..).  Name and description legitimately flow into the other components.  `f` is looked at with helpers inlined."""
    require_fields(P, (adt, "type"))
    f = inl(P, f)
    pv = Prov(f)
    TS = PR + "ts_types::TSType"
    exprs = []
    for n in f.walk():
        if n.get("k") == "Struct" and "rest" not in n and norm(n.get("adt", "")).endswith("ts_types::ObjectField"):
            exprs += [y["e"] for y in n["fields"] if y["name"] == "type"]
        elif n.get("k") == "Tup":
            exprs += [e for e in n.get("es", []) if peel_ty(e.get("t")) == TS]
    def is_def(x, name):
        return x.get("k") == "Path" and norm(x.get("def", "")).endswith("TSType::" + name)

    def type_fields(e):
        """(adt, field) the type expression derives from, control conditions included — except the condition of the `if` that only adds
        `| undefined`: that is the member's *optionality* (coupled with `?` by the optional-flag rule), which may legitimately depend on
        more than the declared type (e.g. the presence of a default value under an option); nullability may not."""
        out, seen, st = set(), set(), [e]
        while st:
            n = st.pop()
            if isinstance(n, list):
                st.extend(n)
                continue
            if not isinstance(n, dict):
                continue
            k = n.get("k")
            if k == "Path" and "local" in n:
                if n["local"] not in seen:
                    seen.add(n["local"])
                    for src, extra in pv.src.get(n["local"], []):
                        out |= {(x[1], x[2]) for x in extra if x[0] == "field"}
                        if src is not None:
                            st.append(src)
                continue
            if k == "Field" and n.get("adt"):
                out.add((norm(n["adt"]), n["field"]))
            if k == "If":
                branches = [n.get("then"), n.get("else")]
                inside = [x for b in branches if b is not None for x in subnodes(b)]
                if any(is_def(x, "Undefined") for x in inside) and not any(is_def(x, "Null") for x in inside):
                    st.extend(b for b in branches if b is not None)
                    continue
            if k in ("Binding", "Wild", "TupleStruct", "PatExpr", "Or", "Ref", "Range", "Slice") or (k == "Struct" and "rest" in n):
                continue
            st.extend(v for v in n.values() if isinstance(v, (dict, list)))
        return out
    n_members = 0
    for e in exprs:
        fields = type_fields(e)
        if (adt, "type") not in fields:
            continue   # some other object type built by the function
        n_members += 1
        extra = sorted(x[1] for x in fields if x[0] == adt and x[1] != "type")
        R.check(rule, "member-type-pure:" + tag, not extra, "the member's TypeScript type is computed from its declared type only",
                "%s: the TypeScript type of a member also depends on `%s.%s`: two members with the same declared type get different types (a "
                "default value or directive changes nullability/shape of the declared input type)" % (f.path, adt.split("::")[-1], "`, `".join(extra)), loc=f.loc())
    if not n_members:
        R.undecided(rule, "member-type-pure:" + tag, "no member type deriving from `%s.type` was found in %s or its helpers" % (adt.split("::")[-1], f.path), loc=f.loc())


def r09c(P, R):
    def variables():
        f = P.fn(PR + "operation_type_printer::type_printer::get_type_for_variable_definitions")
        coupling(P, R, "R09-c", f, OPT, "allow_undefined_as_optional_input", "variables", (A + "variable::Variable", "name"))
        declared_type_direct(P, R, "R09-c", f, A + "variable::VariableDefinition", "variables")
        member_type_pure(P, R, "R09-c", f, A + "variable::VariableDefinition", "variables")

    def input_objects():
        g = P.fn("<" + A + "type_system::InputObjectTypeDefinition as " + PR + "schema_type_printer::type_printer::TypePrinter>::print_type")
        coupling(P, R, "R09-c", g, SOPT, "input_nullable_field_is_optional", "input-object", (A + "type_system::InputValueDefinition", "name"))
        declared_type_direct(P, R, "R09-c", g, A + "type_system::InputValueDefinition", "input-object")
        member_type_pure(P, R, "R09-c", g, A + "type_system::InputValueDefinition", "input-object")
        all_elements(P, R, "R09-c", inl(P, g), A + "type_system::InputObjectTypeDefinition", "fields", "input fields")

    def enums():
        require_fields(P, (A + "type_system::EnumValueDefinition", "name"), (A + "type_system::EnumTypeDefinition", "values"))
        e = inl(P, P.fn("<" + A + "type_system::EnumTypeDefinition as " + PR + "schema_type_printer::type_printer::TypePrinter>::print_type"))
        all_elements(P, R, "R09-c", e, A + "type_system::EnumTypeDefinition", "values", "enum members")
        pv = Prov(e)
        sl = [c for c in e.walk() if c.get("k") == "Call" and norm(c.get("callee", "")).endswith("TSType::StringLiteral") and c["args"]]
        if not sl:
            R.undecided("R09-c", "enum-literals", "no TSType::StringLiteral is built in %s or its helpers" % e.path, loc=e.loc())
        else:
            ok = any(has_field(pv.deep_atoms(c["args"][0]), A + "type_system::EnumValueDefinition", "name") for c in sl)
            R.check("R09-c", "enum-literals", ok, "enum = union of its value names as string literals", "enum members are not its value names", loc=e.loc())

    sections(R, "R09-c", ("variables", variables), ("fast-equal", lambda: fast_equal_sound(P, R, "R09-c")), ("input-objects", input_objects), ("enums", enums))


def r09d(P, R):
    C14P[0] = P
    table = {
        OPT: (P.fn(OPT + "::from_config"), {
            "allow_undefined_as_optional_input": ("GenerateTypeConfig", "allow_undefined_as_optional_input"),
            "variables_type_suffix": ("GenerateNameConfig", "variables_type_suffix"),
            "operation_result_type_suffix": ("GenerateNameConfig", "operation_result_type_suffix"),
            "fragment_type_suffix": ("GenerateNameConfig", "fragment_type_suffix"),
            "print_values": ("GenerateConfig", "mode"),
        }, {"base_options": "from OperationBasePrinterOptions::from_config (C14)", "schema_root_namespace": "fixed name `Schema`",
            "schema_source": "computed by the CLI from output paths", "typed_document_node_source": "fixed package name"}),
        SOPT: (P.fn(SOPT + "::from_config"), {
            "emit_schema_runtime": ("GenerateConfig", "emit_schema_runtime"),
            "input_nullable_field_is_optional": ("GenerateTypeConfig", "allow_undefined_as_optional_input"),
            "scalar_types": ("GenerateTypeConfig", "scalar_types"),
        }, {"schema_metadata_type": "fixed name"}),
    }
    from c14 import BASE_WIRING
    designated = {v for (_fc, wiring, _nc) in table.values() for v in wiring.values()} | set(BASE_WIRING.values())
    for adt_path, (fc, wiring, not_configurable) in table.items():
        adt = P.adt(adt_path)
        w = wiring_of(P, fc, adt_path)
        # conditions guarding assignments (e.g. `if mode == Standalone { print_values = true }`)
        pv = Prov(fc)
        for i, (n, _) in enumerate(fc.nodes()):
            if n.get("k") == "Assign" and n["l"].get("k") == "Field" and norm(n["l"].get("adt")) == adt_path:
                for c in enclosing_contexts(fc, i):
                    if c[0] == "if-then":
                        from c14 import _cfg_fields
                        w.setdefault(n["l"]["field"], set()).update(_cfg_fields(pv.atoms(c[1]["cond"])))
        for fld in adt.fields():
            key = "wiring:%s.%s" % (adt_path.split("::")[-1], fld)
            if fld in not_configurable:
                R.holds("R09-d", key, "not configurable: " + not_configurable[fld], loc=fc.loc())
                continue
            exp = wiring.get(fld)
            if exp is None:
                # a new option (feature addition) is correct when it is wired to a config key of its own
                got = {g for g in w.get(fld, set()) if g[0] != "<assigned>"}
                if got and not (got & designated):
                    R.holds("R09-d", key, "new option `%s` <- new config key(s) %s" % (fld, sorted(got)), loc=fc.loc())
                else:
                    R.undecided("R09-d", key, "option field `%s` has no entry in the wiring table and is wired to %s" % (fld, sorted(got) or "no config key"), loc=fc.loc())
                continue
            try:
                require_fields(P, (CFG + "config::" + exp[0], exp[1]))
            except Exception as e:
                R.undecided("R09-d", key, "kind=anchor-missing: %s" % e, loc=fc.loc())
                continue
            got = {g for g in w.get(fld, set()) if g[0] != "<assigned>"}
            # a further config leaf feeding the same option is a new key (feature addition) unless it is the key of another option
            foreign = sorted(g for g in got - {exp} if g in designated)
            if exp not in got:
                R.violated("R09-d", key, "%s never derives `%s` from config %s.%s (it is wired to %s): the documented option has no effect on this printer"
                           % (fc.path, fld, exp[0], exp[1], sorted(got) or "nothing"), loc=fc.loc())
            elif foreign:
                R.violated("R09-d", key, "%s derives `%s` from config %s.%s and also from %s, the key of another option: one documented option "
                           "changes what another one controls" % (fc.path, fld, exp[0], exp[1], foreign), loc=fc.loc())
            else:
                R.holds("R09-d", key, "`%s` <- config %s.%s%s" % (fld, exp[0], exp[1], (" (and the additional key(s) %s)" % sorted(got - {exp})) if got - {exp} else ""), loc=fc.loc())
    # config keys accepted by the derived deserialisers, per config struct (the struct is the Self type of the derived FieldVisitor)
    import re
    accepted = {}
    for f in P.fns.values():
        if f.derived and f.name == "visit_str" and f.path.startswith("<" + CFG) and " as serde::de::Deserialize>" in (f.self_adt or ""):
            struct = f.self_adt[1:f.self_adt.index(" as ")]
            ks = frozenset(n.get("v") for n in f.walk() if n.get("k") == "PatExpr" and n.get("lk") == "str")
            accepted.setdefault(struct, set()).update(ks)
    R.floor("R09-d", "derived config deserialisers", len(accepted), 7)
    docs = {CFG + "config::" + k: (k, v) for k, v in CONFIG_KEYS.items()}
    docs[CFG + "parse_config::ConfigParser"] = ("(root)", {"schema", "documents", "extensions"})
    docs[CFG + "parse_config::Extensions"] = ("extensions", {"nitrogql"})
    docs[CFG + "parse_config::NitrogqlConfigParser"] = ("extensions.nitrogql", {"plugins", "generate"})
    # who reads a config field: any non-derived function outside the config crate's own tests
    readers = {}
    for f in P.fns.values():
        if f.derived or "::tests" in f.path:
            continue
        for key in field_reads(f):
            if key[0] and key[0].startswith(CFG):
                readers.setdefault(key, []).append(f.path)

    def snake(k):
        return re.sub(r"([A-Z])", lambda m: "_" + m.group(1).lower(), k)
    for struct, (name, keys) in sorted(docs.items(), key=lambda kv: kv[1][0]):
        got = accepted.get(struct)
        if got is None:
            R.undecided("R09-d", "config-keys:" + name, "no derived deserialiser of `%s` was found; which keys it accepts is not decided" % struct)
            continue
        missing = keys - got
        if missing:
            R.violated("R09-d", "config-keys:" + name, "the deserialiser of %s does not accept the documented key(s) %s (it accepts %s): a documented "
                       "option is silently ignored" % (name, sorted(missing), sorted(got)))
            continue
        # a key beyond the documented ones is a feature addition; it is correct when its value is used (some code outside the
        # derives reads the field it is parsed into).  A key that is parsed and then read by nobody has no effect.
        adt = P.adts.get(struct)
        fields = set(adt.fields()) if adt is not None and adt.kind == "Struct" else set()
        dead, unknown = [], []
        for k in sorted(got):
            fld = snake(k)
            if fld not in fields:
                if k not in keys:
                    unknown.append(k)
                continue
            if struct.startswith(CFG + "config::") and not readers.get((struct, fld)):
                dead.append(k)
        if dead:
            R.violated("R09-d", "config-keys:" + name, "config key(s) %s of %s are parsed into `%s` but no function reads that field: the option has no "
                       "effect on any output" % (dead, name, struct.split("::")[-1]))
        elif unknown:
            R.undecided("R09-d", "config-keys:" + name, "accepted key(s) %s of %s are neither documented nor matched to a field of `%s`" % (unknown, name, struct.split("::")[-1]))
        else:
            extra = sorted(got - keys)
            R.holds("R09-d", "config-keys:" + name, "accepts the documented keys %s%s; every key is read by some code" % (sorted(keys), (" and the new key(s) %s" % extra) if extra else ""))


RULES = [("R09-a", r09a), ("R09-b", r09b), ("R09-c", r09c), ("R09-d", r09d)]
EXPLANATION = (
    "Variables/input typing, structural clauses: (R09-a) the nullability table of get_ts_type_of_type (nullable unless Non-Null, list "
    "elements decided afresh; bottom-up (tuple or named struct result) and top-down shapes understood); (R09-b) variables refer to the OperationInput namespace, "
    "are keyed by variable name and readonly, scalar aliases take get_type(context.type_target), the target tables of "
    "ScalarTypeConfig::get_type, @nitrogql_ts_type arguments reach the four fields by name, config overrides directive; (R09-c) "
    "`?` and `| undefined` derive from one flag = option && nullable, for variables and input-object fields; every input field and "
    "enum member is emitted; (R09-d) every option field of the two printers is wired to its config key (or listed as not "
    "configurable; an additional new key feeding an option is accepted, the key of another option is not), the derived deserialisers accept every documented key, and every accepted key — documented or new — is parsed into a field that some code reads. Not decided: denotation of emitted types.")
ASSUMPTIONS = ["documented config keys transcribed from website docs (configuration/options)", "serde derive semantics (rename_all = camelCase)"]


def main(tier):
    return harness.run_property("C09", RULES, "other", EXPLANATION, ASSUMPTIONS, tier)
