"""C17 — Generation is deterministic: hash-seed independence (R17-a) and absence of other
process-random inputs (R17-b). The permutation clause is not decided."""
import harness
from facts import norm, call_name, short, subnodes, peel_ty
from templates import enclosing_contexts

HASH = ("std::collections::hash::map::HashMap", "std::collections::hash::set::HashSet", "hashbrown::")
UNORDERED = HASH + ("alloc::collections::btree::map::BTreeMap", "alloc::collections::btree::set::BTreeSet")
ITER_METHODS = {"iter", "iter_mut", "keys", "values", "values_mut", "into_keys", "into_values", "drain",
                "retain", "extract_if", "into_iter", "par_iter"}
ORDER_FREE_CONSUMERS = {"any", "all", "count", "sum", "product", "min", "max", "len", "is_empty", "contains"}
PASS_THROUGH = {"map", "filter", "filter_map", "flat_map", "flatten", "cloned", "copied", "by_ref", "inspect",
                "chain", "into_iter", "iter", "rev", "peekable", "map_while", "take_while", "skip_while", "fuse"}

# Sites whose sink is order-dependent but harmless, one reason each.  A listed site is identified by *what* is iterated (the
# container's field), *what kind of sink* the order reaches, and the ABI entry points it is (not) reachable from -- never by the
# name or module of the enclosing function: a site that moves (helper extraction, method on another type, new module) is the same
# site; a second site of the same description, or the same iteration reaching the emit path, is a new one.  `source` = (name of
# the ADT, prefix of the type of the iterated field): the field itself may be renamed.
ALLOW = [
    {"crate": "graphql_loader", "source": ("Task", "std::collections::hash::map::HashMap<std::path::PathBuf, "), "sink": "Vec", "count": 1,
     "only_under": "graphql_loader::get_required_files", "never_under": ("graphql_loader::emit_js", "graphql_loader::js_printer::print_js"),
     "reason": "loader ABI `get_required_files`: the host (packages/loader-core) treats the newline-joined list as a set of "
               "files to load; emitted JavaScript does not depend on it. Not a `generate` output."},
]
SHORT_CIRCUIT = ("core::result::Result<", "core::option::Option<")
SORTING_ADAPTORS = {"sorted", "sorted_by", "sorted_by_key", "sorted_unstable", "sorted_unstable_by", "sorted_unstable_by_key", "sorted_by_cached_key"}
ORDER_DEP_CONSUMERS = {"fold", "try_fold", "find", "find_map", "position", "next", "last", "nth", "reduce", "join", "first", "take", "skip",
                       "step_by", "next_back", "nth_back", "rposition", "rfind", "min_by_key", "max_by_key", "min_by", "max_by", "concat"}
NEUTRAL_ON_LOCAL = {"push", "reserve", "reserve_exact", "shrink_to_fit", "capacity", "len", "is_empty", "dedup", "dedup_by_key"}


def is_hash(t):
    return peel_ty(t).startswith(HASH)


def is_unordered(t):
    return peel_ty(t).startswith(UNORDERED)


def _tyname(t):
    return peel_ty(t).split("<")[0].split("::")[-1]


def hash_sources(P):
    """[(fn, node_index, node, what)] every expression that exposes the iteration order of a hash container"""
    out = []
    for f in P.fns.values():
        if f.derived or "::tests::" in f.path or f.path.endswith("::tests"):
            continue
        for i, (n, _) in enumerate(f.nodes()):
            k = n.get("k")
            if k == "MethodCall" and n["method"] in ITER_METHODS and n.get("recv_ty") and is_hash(n["recv_ty"]):
                out.append((f, i, n, n["method"]))
            elif k == "Call":
                c = call_name(n) or ""
                if c.endswith("IntoIterator::into_iter") and n["args"]:
                    at = n["args"][0].get("ta") or n["args"][0].get("t")
                    if is_hash(at):
                        out.append((f, i, n, "for-loop"))
                elif "fmt::rt::Argument" in c and c.endswith("new_debug") and n["args"]:
                    at = n["args"][0].get("t", "")
                    if "HashMap<" in norm(at) or "HashSet<" in norm(at):
                        out.append((f, i, n, "debug-format"))
    return out


def source_of(f, n):
    """what is iterated, independent of where the iteration is written: `Adt.field` of the container when the receiver derives
    from a field, else the container's type"""
    from prov import Prov
    recv = n.get("recv") if n.get("k") == "MethodCall" else (n["args"][0] if n.get("args") else None)
    if recv is None:
        return "?"
    flds = sorted("%s.%s" % ((a[1] or "?").split("::")[-1], a[2]) for a in Prov(f).atoms(recv) if a[0] == "field")
    if flds:
        return "/".join(flds)
    return _tyname(recv.get("ta") or recv.get("t") or n.get("recv_ty") or "?")


def classify(P, f, i, n, depth=0, enumerated=False):
    """follow the value that carries the iteration order from nodes()[i] to its sink
    -> (verdict, reason, sink); verdict in {"insensitive", "sensitive", "unknown", ("wrapper", fn)}; sink = short class of an
    order-dependent sink (the container it accumulates into, `print`, `first-match`, ...)"""
    acc = f.nodes()
    cur_i, cur = i, n
    collected = None
    while True:
        pi = acc[cur_i][1]
        if pi < 0:
            break
        p = acc[pi][0]
        pk = p.get("k")
        if pk == "MethodCall" and p.get("recv") is cur:
            m = p["method"]
            if m == "enumerate":
                enumerated = True
                cur_i, cur = pi, p
                continue
            if m in PASS_THROUGH:
                cur_i, cur = pi, p
                continue
            if m in SORTING_ADAPTORS or (collected and m.startswith("sort")):
                tie = _sort_ties(P, f, p)
                if tie:
                    return "sensitive", tie, "sorted-with-ties"
                return "insensitive", "sorted (`%s`) before it is used" % m, None
            if m in ("collect", "unzip", "partition", "collect_vec"):
                t = p.get("t", "")
                if peel_ty(t).startswith(SHORT_CIRCUIT):
                    return "sensitive", "collected into %s: stops at the first failing element in iteration order" % _tyname(t), "first-failure"
                if is_unordered(t) and not enumerated:
                    return "insensitive", "collected into %s" % peel_ty(t).split("<")[0], None
                own = _own_from_iter(P, t)
                if own is not None and depth < 4:
                    # collected into a type of the workspace: what its own FromIterator does with the items decides
                    g, lid = own
                    v = follow_local(P, g, lid, -1, depth + 1, enumerated, None)
                    if v[0] == "insensitive":
                        return "insensitive", "collected into %s, whose FromIterator is order-insensitive (%s)" % (_tyname(t), v[1]), None
                    if v[0] == "sensitive":
                        return v
                collected = _tyname(t)
                cur_i, cur = pi, p
                continue
            if m in ORDER_FREE_CONSUMERS and not enumerated:
                return "insensitive", "consumed by order-free `%s`" % m, None
            if m in ("for_each", "try_for_each") and p["args"] and p["args"][0].get("k") == "Closure":
                return effects_of(P, f, p["args"][0]["body"], "closure of `%s`" % m)
            if m in ORDER_DEP_CONSUMERS or m in ("for_each", "try_for_each"):
                return "sensitive", "consumed by order-dependent `%s`" % m, "first-match" if m in ("find", "find_map", "position", "next", "first", "last", "nth") else m
            return "unknown", "unrecognised consumer `%s`" % m, None
        if pk == "MethodCall" and any(a is cur for a in p.get("args", [])):
            m = p["method"]
            if cur.get("k") == "Closure":
                if m in PASS_THROUGH:
                    cur_i, cur = pi, p
                    continue
                return "unknown", "produced inside a closure passed to `%s`" % m, None
            if m in ("extend", "append", "extend_from_slice"):
                if is_unordered(p.get("recv_ty", "")):
                    return "insensitive", "extends a %s" % peel_ty(p["recv_ty"]).split("<")[0], None
                return "sensitive", "appended to ordered container %s" % _tyname(p.get("recv_ty", "")), _tyname(p.get("recv_ty", ""))
            if m in ("chain", "zip"):
                cur_i, cur = pi, p
                continue
            return "unknown", "passed to `%s`" % m, None
        if pk == "Call" and any(a is cur for a in p.get("args", [])):
            c = call_name(p) or ""
            if c.endswith(("IntoIterator::into_iter", "Try::branch")) or c in ("core::result::Result::Ok", "core::option::Option::Some"):
                cur_i, cur = pi, p
                continue
            if c.endswith("FromIterator::from_iter"):
                t = p.get("t", "")
                if peel_ty(t).startswith(SHORT_CIRCUIT):
                    return "sensitive", "collected into %s: stops at the first failing element in iteration order" % _tyname(t), "first-failure"
                if is_unordered(t) and not enumerated:
                    return "insensitive", "collected into %s" % peel_ty(t).split("<")[0], None
                collected = _tyname(t)
                cur_i, cur = pi, p
                continue
            return "unknown", "passed to `%s`" % short(c), None
        if pk == "Match" and p.get("src") == "ForLoopDesugar" and p.get("scrut") is cur:
            return effects_of(P, f, p, "loop body")
        if pk == "Match" and str(p.get("src", "")).startswith("TryDesugar") and p.get("scrut") is cur:
            cur_i, cur = pi, p
            continue
        if pk in ("AddrOf", "DropTemps", "Use", "Cast"):
            cur_i, cur = pi, p
            continue
        if pk == "Closure" and p.get("body") is cur:
            cur_i, cur = pi, p
            continue
        if pk == "Ret":
            return ("wrapper", f), "returned from %s" % short(f.path), None
        if pk == "Block" and p.get("tail") is cur:
            # tail of the function body -> the function returns the iterator (or the collection built from it)
            gp = acc[pi][1]
            if gp >= 0 and acc[gp][0] is f.body or p is f.body.get("b"):
                return ("wrapper", f), "returned from %s" % short(f.path), None
            cur_i, cur = pi, p
            continue
        if pk == "BlockExpr":
            cur_i, cur = pi, p
            continue
        if pk == "Let" and p.get("init") is cur and p["pat"].get("k") == "Binding" and "sub" not in p["pat"]:
            return follow_local(P, f, p["pat"]["local"], pi, depth, enumerated, collected)
        if pk == "Let":
            return "unknown", "bound by a destructuring pattern", None
        break
    if collected:
        return "sensitive", "collected into ordered container %s without sorting" % collected, collected
    return "unknown", "escapes the recognised idioms", None


def _own_from_iter(P, t):
    """(from_iter impl, local of its iterator parameter) when `t` is an ADT of the workspace with its own FromIterator"""
    adt = peel_ty(t).split("<")[0]
    if adt not in P.adts:
        return None
    hits = [g for g in P.trait_impls("core::iter::traits::collect::FromIterator", "from_iter") if g.self_adt == adt and not g.derived]
    if len(hits) != 1 or not hits[0].params or hits[0].params[0].get("k") != "Binding":
        return None
    return hits[0], hits[0].params[0]["local"]


def _sort_ties(P, f, sort_call):
    """a sort removes the hash order only where its comparison separates the elements.  Positive evidence that it does not: the key
    is a source position (Pos, or the generic original node of the type system) and the ordering of positions never reads the file
    component — elements at the same line/column of different files (or all at the default position) tie and keep hash order."""
    from prov import Prov
    closures = [a for a in sort_call.get("args", []) if a.get("k") == "Closure"]
    if not closures:
        return None
    pv = Prov(f)
    a = set()
    for c in closures:
        a |= pv.atoms(c["body"])
    by_pos = any(x[0] == "call" and x[1].split("::")[-1] in ("original_node_ref", "position", "pos") for x in a) or \
        any(x[0] == "field" and x[2] in ("position", "pos") for x in a)
    if not by_pos:
        return None
    cmps = [g for g in P.trait_impls("core::cmp::Ord", "cmp") + P.trait_impls("core::cmp::PartialOrd", "partial_cmp") if (g.self_adt or "").endswith("::Pos") and not g.derived]
    if not cmps:
        return None
    from facts import field_reads
    if any(fld == "file" for g in cmps for _, fld in field_reads(g)):
        return None
    return ("sorted (`%s`) by source position, but the ordering of positions (%s) never reads the file: elements at the same line and column of different "
            "files - or all at the default position, as on the introspection route - tie and keep the hash order" % (sort_call["method"], short(cmps[0].path)))


def follow_local(P, f, lid, let_i, depth, enumerated, collected):
    """the order-carrying value was bound to a local: it is harmless iff it is sorted before any use that exposes its order,
    or every such use is itself order-insensitive"""
    if depth >= 4:
        return "unknown", "bound to a local (chain of bindings too long to follow)", None
    acc = f.nodes()
    uses = [j for j, (x, _) in enumerate(acc) if j > let_i and x.get("k") == "Path" and x.get("local") == lid]
    worst = None
    for j in uses:
        x = acc[j][0]
        pj = acc[j][1]
        par = acc[pj][0] if pj >= 0 else {}
        if par.get("k") == "MethodCall" and par.get("recv") is x:
            if par["method"].startswith("sort"):
                tie = _sort_ties(P, f, par)
                if tie:
                    return "sensitive", tie, "sorted-with-ties"
                if worst is None:
                    return "insensitive", "bound to a local that is sorted (`%s`) before any other use" % par["method"], None
                break
            if par["method"] in NEUTRAL_ON_LOCAL:
                continue
        v = classify(P, f, j, x, depth + 1, enumerated)
        if isinstance(v[0], tuple) or v[0] == "unknown":
            if worst is None or worst[0] != "sensitive":
                worst = ("unknown", v[1] if not isinstance(v[0], tuple) else "bound to a local that is returned", None)
        elif v[0] == "sensitive":
            worst = v
    if worst is None:
        if collected and not uses:
            return "insensitive", "bound to a local that is never used", None
        return "insensitive", "bound to a local whose uses are all order-insensitive", None
    if worst[0] == "unknown" and collected:
        return "sensitive", "collected into ordered container %s without sorting (%s)" % (collected, worst[1]), collected
    return worst


def effects_of(P, f, region, what):
    """a loop body / for_each closure over a hash container is order-insensitive iff it only inserts into unordered containers"""
    effects = []
    for x in subnodes(region):
        if x.get("k") == "MethodCall":
            m = x["method"]
            rt = x.get("recv_ty", "")
            if m in ("insert", "entry", "extend", "remove") and is_unordered(rt):
                effects.append(("unordered-insert", m, None))
            elif m in ("push", "push_str", "write", "write_str", "write_fmt", "push_back", "extend", "append", "insert"):
                effects.append(("ordered-effect", m + " on " + peel_ty(rt).split("<")[0], _tyname(rt)))
        elif x.get("k") == "Call":
            c = call_name(x) or ""
            if c.endswith("_print") or c.endswith("_eprint"):
                effects.append(("ordered-effect", "print", "print"))
        elif x.get("k") in ("Ret", "Break") and "desugar" not in (x.get("x") or "") and x.get("e") is not None:
            effects.append(("ordered-effect", "early exit with a value", "first-match"))
    bad = [e for e in effects if e[0] == "ordered-effect"]
    if not bad and effects:
        return "insensitive", "%s only inserts into unordered containers (%d inserts)" % (what, len(effects)), None
    if not effects:
        return "insensitive", "%s has no order-dependent effect" % what, None
    return "sensitive", "%s has order-dependent effects: %s" % (what, sorted(set(e[1] for e in bad))), "+".join(sorted(set(e[2] for e in bad)))


def opaque_function(f):
    """order cannot escape the function: it returns an unordered container/aggregate and has no &mut input"""
    ret = f.sig_output or ""
    if not (is_unordered(ret) or ret in ("bool", "usize", "()")):
        return False
    if any(t.startswith("&mut") for t in f.sig_inputs):
        return False
    for x in f.walk():
        if x.get("k") == "Call" and (call_name(x) or "").endswith(("_print", "_eprint")):
            return False
    return ret != "()"


def _source_matches(P, crate, source, want):
    """is one of the `Adt.field` components of `source` a field of the ADT named want[0] (in `crate`) whose type starts with want[1]"""
    for part in source.split("/"):
        if "." not in part:
            continue
        adt_name, fld = part.split(".", 1)
        if adt_name != want[0]:
            continue
        for ap, a in P.adts.items():
            if ap.startswith(crate + "::") and ap.split("::")[-1] == adt_name and a.kind == "Struct" and (a.field_types().get(fld) or "").startswith(want[1]):
                return True
    return False


def _entry(P, path):
    hits = [g for g in P.fns.values() if g.path == path]
    return hits[0] if hits else None


def r17a(P, R):
    sites = hash_sources(P)
    R.count("hash_iteration_sites", len(sites))
    work = [(f, i, node, what, source_of(f, node)) for f, i, node, what in sites]
    seen_wrappers = set()
    n = 0
    used = {}
    reach_cache = {}

    def under(entry_path):
        if entry_path not in reach_cache:
            e = _entry(P, entry_path)
            reach_cache[entry_path] = P.reachable([e]) if e is not None else None
        return reach_cache[entry_path]
    keys = {}
    while work:
        f, i, node, what, source = work.pop(0)
        n += 1
        key = "%s:%s:%s" % (f.crate, source, what)
        keys[key] = keys.get(key, 0) + 1
        if keys[key] > 1:
            key += "#%d" % keys[key]
        verdict, reason, sink = classify(P, f, i, node)
        if isinstance(verdict, tuple):
            w = verdict[1]
            R.holds("R17-a", key, "iteration order is handed to the callers of %s (each caller classified)" % short(w.path), loc=f.loc())
            if w.path not in seen_wrappers:
                seen_wrappers.add(w.path)
                for g in sorted(P.fns.values(), key=lambda g: g.path):
                    if g.derived or "::tests" in g.path:
                        continue
                    for j, (c, _) in enumerate(g.nodes()):
                        if c.get("k") in ("MethodCall", "Call") and call_name(c) == w.path:
                            work.append((g, j, c, "via " + w.name, source))
            continue
        if verdict != "insensitive" and opaque_function(f):
            verdict, reason = "insensitive", "%s; but the enclosing function returns `%s` and takes no &mut input, so order cannot escape it" % (reason, (f.sig_output or "").split("<")[0])
        if verdict == "insensitive":
            R.holds("R17-a", key, reason, loc=f.loc())
            continue
        entry = next((a for a in ALLOW if a["crate"] == f.crate and a["sink"] == sink and _source_matches(P, f.crate, source, a["source"])), None)
        if entry is not None:
            idx = ALLOW.index(entry)
            ok_under = under(entry["only_under"])
            if ok_under is None:
                R.undecided("R17-a", key, "listed site, but its entry point %s cannot be resolved" % entry["only_under"], loc=f.loc())
                continue
            bad_under = [e for e in entry["never_under"] if under(e) is not None and f.path in under(e)]
            if f.path in ok_under and not bad_under and used.get(idx, 0) < entry["count"]:
                used[idx] = used.get(idx, 0) + 1
                R.holds("R17-a", key, "listed: " + entry["reason"], loc=f.loc())
                continue
            why = ("it is reachable from %s" % bad_under) if bad_under else \
                  ("it is not reachable from %s" % entry["only_under"]) if f.path not in ok_under else "the listed site already exists elsewhere: this is a further one"
            reason = "%s; the allow-table lists one iteration over %s into a %s, but %s" % (reason, source, sink, why)
        R.violated("R17-a", key, "%s iterates a hash container (%s; %s) and the order reaches %s: output can differ between processes with "
                   "different hash seeds" % (f.path, source, what, ("an order-dependent sink (%s)" % reason) if verdict == "sensitive" else
                                             ("a sink the classifier cannot prove order-free (%s)" % reason)), loc=f.loc(), detail={"verdict": verdict})
    R.floor("R17-a", "hash iteration sites", n, 4)


NONDET = ("std::time::", "std::thread::spawn", "std::thread::current", "std::thread::scope", "std::thread::Builder",
          "std::thread::sleep", "std::thread::available_parallelism", "std::thread::Thread::id", "rand::", "getrandom::", "std::process::id", "core::fmt::rt::Argument::new_pointer",
          "std::collections::hash::map::RandomState::", "std::hash::random::", "std::time::SystemTime", "std::time::Instant",
          "std::env::temp_dir", "tempfile::")


def r17b(P, R):
    hits = P.ext_callers(lambda p: p.startswith(NONDET) or "fmt::rt::Argument::new_pointer" in p)
    n = 0
    for f, callee, node in hits:
        if "::tests" in f.path or f.derived:
            continue
        # async-runtime ticket ids / config-file execute are not on the printing path but are listed if they appear
        n += 1
        R.violated("R17-b", "%s:%s" % (f.path, callee), "%s calls `%s` (time, randomness, thread or address dependent)" % (f.path, callee), loc=f.loc())
    R.holds("R17-b", "none", "no call to time/RNG/thread/address-formatting APIs in %d workspace functions" % len(P.fns))
    # positive control: the classifier recognises at least the known HashMap::iter call shape
    R.floor("R17-b", "functions scanned", len(P.fns), 1000)


ORDER_DEP = {"find", "find_map", "position", "rposition", "next", "first", "last", "nth", "take", "skip", "take_while", "skip_while",
             "min_by_key", "max_by_key", "min_by", "max_by", "reduce", "fold", "try_fold", "rev", "zip", "enumerate", "step_by", "nth_back",
             "next_back", "peekable", "scan", "map_while"}


def r17c(P, R):
    """verdict does not depend on the order of schema definitions: in the checker, an iteration in schema-definition order
    (Schema::iter_types / iter_directives and wrappers returning them) never ends in an order-dependent consumer"""
    srcs = {"graphql_type_system::schema::Schema::iter_types", "graphql_type_system::schema::Schema::iter_directives",
            "nitrogql_printer::utils::interface_implementers"}
    n = 0
    for f in P.fns.values():
        if f.derived or "::tests" in f.path:
            continue
        if not (f.crate in ("nitrogql_checker",) or f.path.startswith(("nitrogql_semantics::direct_fields", "nitrogql_semantics::definition_map",
                                                                       "nitrogql_semantics::type_system_utils"))):
            continue
        acc = f.nodes()
        for i, (c, _) in enumerate(acc):
            if c.get("k") not in ("MethodCall", "Call") or call_name(c) not in srcs:
                continue
            n += 1
            cur, ci = c, i
            chain = []
            verdict = "order-free"
            while True:
                pi = acc[ci][1]
                if pi < 0:
                    break
                p = acc[pi][0]
                if p.get("k") == "MethodCall" and p.get("recv") is cur:
                    chain.append(p["method"])
                    if p["method"] in ORDER_DEP:
                        verdict = p["method"]
                        break
                    if p["method"] in ORDER_FREE_CONSUMERS or p["method"] in ("collect", "for_each", "count"):
                        break
                    cur, ci = p, pi
                    continue
                if p.get("k") in ("AddrOf", "DropTemps", "Use"):
                    cur, ci = p, pi
                    continue
                break
            key = "%s:%s" % (short(f.path), "/".join(chain) or "iter")
            R.check("R17-c", key, verdict == "order-free", "schema-order iteration consumed order-free (%s)" % ("/".join(chain) or "loop"),
                    "%s consumes an iteration over the schema's definitions with order-dependent `%s`: permuting type definitions "
                    "(or schema files) can change the check verdict" % (f.path, verdict), loc=f.loc())
    R.floor("R17-c", "schema-order iterations in the checker", n, 1)


TRUNCATING = {"take_while", "skip_while", "take", "skip", "step_by", "map_while", "nth", "last"}


def r17f(P, R):
    """a scan over *all* definitions of the schema (Schema::iter_types / iter_directives) is cut by position nowhere in the workspace:
    where the scan stops depends on the order in which the definitions were registered, which differs between the routes and under
    permutation of the schema files"""
    srcs = {"graphql_type_system::schema::Schema::iter_types", "graphql_type_system::schema::Schema::iter_directives"}
    hits = []
    for f in sorted(P.fns.values(), key=lambda g: g.path):
        if f.derived or "::tests" in f.path:
            continue
        acc = f.nodes()
        for i, (c, _) in enumerate(acc):
            if c.get("k") not in ("MethodCall", "Call") or call_name(c) not in srcs:
                continue
            cur, ci = c, i
            while True:
                pi = acc[ci][1]
                if pi < 0:
                    break
                p = acc[pi][0]
                if p.get("k") == "MethodCall" and p.get("recv") is cur:
                    if p["method"] in TRUNCATING:
                        hits.append((f, p["method"]))
                        break
                    if p["method"] in ORDER_FREE_CONSUMERS or p["method"] in ("collect", "for_each", "count", "find", "find_map", "position"):
                        break
                    cur, ci = p, pi
                    continue
                if p.get("k") in ("AddrOf", "DropTemps", "Use"):
                    cur, ci = p, pi
                    continue
                break
    for f, m in hits:
        R.violated("R17-c", "truncated-scan:%s" % short(f.path), "%s cuts its scan over all definitions of the schema with `%s`: definitions registered after the cut are "
                   "never seen, so the result depends on the order of the schema's definitions (SDL order vs the order of the introspection JSON)" % (f.path, m), loc=f.loc())
    if not hits:
        R.holds("R17-c", "truncated-scan:none", "no scan over Schema::iter_types/iter_directives is cut by position")


def r17g(P, R):
    """a table that decides how a definition is printed is complete before it is consulted: in the printers, a loop over the
    definitions must not both consult a set/map (`contains`, `get`) and keep adding to it entries computed from *other* data of
    the elements — what an element sees then depends on which elements came before it, i.e. on the order of definitions.
    (A seen-set, where what is added is the very key that is looked up, is not such a table.)"""
    hits, n = [], 0
    for f in sorted(P.fns.values(), key=lambda g: g.path):
        if f.derived or "::tests" in f.path or f.crate != "nitrogql_printer":
            continue
        for loop in [x for x in f.walk() if x.get("k") == "Loop" and x.get("src") == "ForLoop"]:
            inner = subnodes(loop)
            declared = {y["local"] for y in inner if y.get("k") == "Binding" and "local" in y}

            def locs(e):
                return {y["local"] for y in subnodes(e) if y.get("k") == "Path" and "local" in y and y["local"] in declared}
            queries, fills = {}, {}
            for y in inner:
                if y.get("k") == "MethodCall" and y["recv"].get("k") == "Path" and y["recv"].get("local") is not None and y["recv"]["local"] not in declared \
                        and any(w in norm(y.get("recv_ty", "") or "") for w in ("HashSet", "HashMap", "BTreeSet", "BTreeMap", "IndexMap", "IndexSet")):
                    lid = y["recv"]["local"]
                    if y["method"] in ("contains", "contains_key", "get"):
                        queries.setdefault(lid, []).append(set().union(*[locs(a_) for a_ in y["args"]]) if y["args"] else set())
                    elif y["method"] in ("insert", "extend"):
                        fills.setdefault(lid, []).append((set().union(*[locs(a_) for a_ in y["args"]]) if y["args"] else set(), y["recv"].get("name")))
                elif y.get("k") == "Call" and (call_name(y) or "") in P.fns:
                    for a_ in y["args"]:
                        if a_.get("k") == "AddrOf" and a_.get("mut") and a_["e"].get("k") == "Path" and a_["e"].get("local") is not None and a_["e"]["local"] not in declared \
                                and any(w in norm(a_["e"].get("t", "") or a_.get("t", "") or "") for w in ("HashSet", "HashMap", "BTreeSet", "BTreeMap", "IndexMap", "IndexSet")):
                            others = set().union(*[locs(b_) for b_ in y["args"] if b_ is not a_]) if len(y["args"]) > 1 else set()
                            fills.setdefault(a_["e"]["local"], []).append((others, a_["e"].get("name")))
            for lid in sorted(set(queries) & set(fills)):
                n += 1
                qk = set().union(*queries[lid])
                foreign = [nm for ls, nm in fills[lid] if not (ls & qk)]
                if foreign and qk:
                    hits.append((f, foreign[0]))
    for f, nm in hits:
        R.violated("R17-c", "read-while-filling:%s:%s" % (short(f.path), nm), "%s consults `%s` for each definition while the same loop is still adding entries to it that come "
                   "from other definitions: what a definition sees depends on which definitions were visited before it, so the output changes when the schema's "
                   "definitions are reordered" % (f.path, nm), loc=f.loc())
    if not hits:
        R.holds("R17-c", "read-while-filling:none", "no printer loop consults a table that the same loop is still filling from other elements (%d loops with a seen-set)" % n)


def r17h(P, R):
    """positions identify a node only together with their file: a hand-written equality or hash that looks at line/column of a
    position but never at its file makes nodes of different files "the same", so whatever decides by it (duplicate detection,
    de-duplication, memo keys, first-one-wins) depends on the order in which the files were loaded"""
    from facts import field_reads
    from templates import scope_fns
    hits = []
    for tr, m in (("core::cmp::PartialEq", "eq"), ("core::hash::Hash", "hash")):
        for g in P.trait_impls(tr, m):
            if g.derived or "::tests" in g.path or g.from_expansion:
                continue
            reads = set()
            for h in scope_fns(P, g, depth=2):
                reads |= {(a.split("::")[-1], fld) for a, fld in field_reads(h) if a}
            if {("Pos", "line"), ("Pos", "column")} & reads and ("Pos", "file") not in reads:
                hits.append((g, tr.split("::")[-1]))
    for g, tr in hits:
        R.violated("R17-c", "position-identity:%s:%s" % ((g.self_adt or g.self_ty or "?").split("::")[-1], tr), "%s compares/hashes the line and column of a position but never "
                   "its file: nodes at the same line and column of different files count as identical, so the one that wins (first declaration kept, duplicate "
                   "dropped, cached answer reused) depends on the order of the files" % g.path, loc=g.loc())
    if not hits:
        R.holds("R17-c", "position-identity:ok", "no hand-written equality/hash over positions ignores the file")


def r17e(P, R):
    """a decision taken while files are merged one by one must not depend on which file comes first (the load order is the glob's
    alphabetical order, an accident of file naming).  In a loop that dispatches on the variant of each element and accumulates per
    variant, an early failure in the arm of variant X that reads what the arm of variant Y accumulated fires only when a Y came
    before an X; it is order-independent only if the arm of Y has the mirror test, or a test after the loop sees both."""
    n = 0
    for f in sorted(P.fns.values(), key=lambda g: g.path):
        if f.derived or "::tests" in f.path or not f.path.startswith("nitrogql_cli::"):
            continue
        acc = f.nodes()
        for li, (loop, _) in enumerate(acc):
            if loop.get("k") != "Loop" or loop.get("src") != "ForLoop":
                continue
            inner = subnodes(loop)
            declared = {y["local"] for y in inner if y.get("k") == "Binding" and "local" in y}
            for m in inner:
                if m.get("k") != "Match" or m.get("src") != "Normal" or len(m["arms"]) < 2:
                    continue
                if not all(x.get("k") in ("TupleStruct", "Struct", "PatExpr", "Path") for arm in m["arms"] for x in [_strip_pat(arm["pat"])]):
                    continue
                writes, exits = [], []
                for arm in m["arms"]:
                    w = set()
                    for y in subnodes(arm["body"]):
                        tgt = None
                        if y.get("k") in ("Assign", "AssignOp"):
                            tgt = y["l"]
                        elif y.get("k") == "MethodCall" and y["method"] in ("push", "insert", "extend", "push_back", "append", "replace", "get_or_insert", "get_or_insert_with"):
                            tgt = y["recv"]
                        while tgt is not None and tgt.get("k") in ("Field", "Index", "Unary", "AddrOf") and "e" in tgt:
                            tgt = tgt["e"]
                        if tgt is not None and tgt.get("k") == "Path" and tgt.get("local") is not None and tgt["local"] not in declared:
                            w.add(tgt["local"])
                    writes.append(w)
                    ex = []
                    for y in subnodes(arm["body"]):
                        if y.get("k") == "If" and any(z.get("k") in ("Ret", "Break") and "desugar" not in (z.get("x") or "") for z in subnodes(y["then"])):
                            ex.append({z["local"] for z in subnodes(y["cond"]) if z.get("k") == "Path" and z.get("local") is not None and z["local"] not in declared})
                    exits.append(ex)
                if not any(writes):
                    continue
                names = {y["local"]: y.get("name") for y in f.walk() if y.get("k") in ("Binding", "Path") and "local" in y}
                # tests after the loop, in the same function
                after = [{z["local"] for z in subnodes(y["cond"]) if z.get("k") == "Path" and z.get("local") is not None}
                         for j, (y, _) in enumerate(acc) if j > li and y.get("k") == "If" and not any(z is y for z in inner)]
                for xi, ex in enumerate(exits):
                    for reads in ex:
                        for yi, w in enumerate(writes):
                            if yi == xi:
                                continue
                            cross = (reads & w) - writes[xi]
                            if not cross:
                                continue
                            n += 1
                            mirrored = any((r & writes[xi]) - w for r in exits[yi])
                            post = any((r & w) and (r & writes[xi]) for r in after)
                            key = "symmetric-decision:%s:%s" % (short(f.path), "/".join(sorted(names.get(l) or "?" for l in cross)))
                            if mirrored or post:
                                R.holds("R17-c", key, "the cross-variant test has its mirror (%s)" % ("in the other arm" if mirrored else "after the loop"), loc=f.loc())
                            else:
                                R.violated("R17-c", key, "%s fails early in the arm of one variant when `%s` (filled by the arm of another variant) is non-empty, and neither the other "
                                           "arm nor a test after the loop mirrors it: the verdict depends on which file is loaded first, i.e. on how the schema files "
                                           "happen to be named" % (f.path, "/".join(sorted(names.get(l) or "?" for l in cross))), loc=f.loc())
    if not n:
        R.holds("R17-c", "symmetric-decision:none", "no merge loop of the CLI fails in one variant's arm on what another variant's arm accumulated")


def _strip_pat(p):
    while p.get("k") in ("Ref", "Deref", "Box") and "p" in p:
        p = p["p"]
    return p


def _untruncated_opens(prog):
    """OpenOptions chains that open for writing without `truncate(true)` / `create_new(true)` / `append(true)`"""
    out = []
    for f in prog.fns.values():
        if "::tests" in f.path or f.derived:
            continue
        for c in f.walk():
            if c.get("k") == "MethodCall" and (call_name(c) or "").endswith("OpenOptions::open"):
                names = []
                e = c["recv"]
                while isinstance(e, dict) and e.get("k") in ("MethodCall", "AddrOf", "Call"):
                    if e.get("k") == "MethodCall":
                        names.append(e["method"])
                        e = e["recv"]
                    elif e.get("k") == "AddrOf":
                        e = e["e"]
                    else:
                        break
                if "write" in names and not ({"truncate", "create_new", "append"} & set(names)):
                    out.append((f, names))
    return out


def r17d(P, R):
    """history independence: (1) outputs are written over truncated files; (2) the generating functions keep no state between runs"""
    from templates import global_state_holders, global_state_uses
    opens = _untruncated_opens(P)
    for f, names in opens:
        R.violated("R17-d", "untruncated-write:%s" % short(f.path), "%s opens an output file with OpenOptions(%s) and no truncation: when the new "
                   "content is shorter than what a previous run left at that path the old tail survives, so the bytes depend on the directory's "
                   "history" % (f.path, ", ".join(reversed(names))), loc=f.loc())
    if not opens:
        R.holds("R17-d", "untruncated-write:none", "no OpenOptions write without truncate/create_new/append in the workspace")
    # ... and what a run writes does not depend on what a previous run left there: the function that writes a file does not read
    # the contents (or metadata) of that same path
    from prov import Prov
    from templates import inlined
    READS = ("std::fs::read", "std::fs::read_to_string", "std::fs::metadata", "std::fs::File::open", "std::fs::symlink_metadata")
    WRITES = ("std::fs::write", "std::fs::File::create", "std::fs::File::create_new", "std::fs::OpenOptions::open")
    rb = []
    for f0 in sorted(P.fns.values(), key=lambda g: g.path):
        if f0.derived or "::tests" in f0.path or not f0.path.startswith("nitrogql_cli::"):
            continue
        if not any(x.get("k") in ("Call", "MethodCall") and (call_name(x) or "").startswith(WRITES) for x in f0.walk()):
            continue
        f = inlined(P, f0, depth=1)
        pv = Prov(f)

        def path_params(x):
            args = ([x["recv"]] if x.get("k") == "MethodCall" else []) + x["args"]
            return {a[1] for a in pv.atoms(args[0]) if a[0] == "param"} if args else set()
        written = set()
        for x in f.walk():
            if x.get("k") in ("Call", "MethodCall") and (call_name(x) or "").startswith(WRITES):
                written |= path_params(x)
        for x in f.walk():
            if x.get("k") in ("Call", "MethodCall") and (call_name(x) or "").startswith(READS) and not (call_name(x) or "").startswith("std::fs::read_dir"):
                if path_params(x) & written:
                    rb.append((f0, (call_name(x) or "").split("::")[-1]))
    for f0, what in rb:
        R.violated("R17-d", "read-before-write:%s" % short(f0.path), "%s reads (`%s`) the very path it writes: whether and what it writes depends on what a previous run "
                   "left on disk, so the files of one project are not a function of the project alone" % (f0.path, what), loc=f0.loc())
    if not rb:
        R.holds("R17-d", "read-before-write:none", "no writer of the CLI reads back the path it writes")
    holders = global_state_holders(P)
    R.floor("R17-d", "global state holders found in the workspace (detector control)", len(holders), 6)
    entries = [P.fn("graphql_loader::js_printer::print_js"), P.fn("nitrogql_cli::generate::run_generate"), P.fn("nitrogql_cli::check::run_check")]
    scope = [P.fns[p] for p in P.reachable(entries) if not P.fns[p].derived]
    ALLOWED = {
        "nitrogql_ast::current_file::CURRENT_FILE_OF_POS": "set by the caller immediately before each parse (R08-c file-index-source); a pure input of the parse",
        "nitrogql_config_file::node::NODE_COMMAND_SERVER": "handle of the node helper process (environment, outside the claim)",
        "nitrogql_async_runtime::RUNTIME": "executor of the node helper calls (environment)",
        "nitrogql_async_runtime::ticket::TICKETS": "executor bookkeeping (environment)",
    }
    bad = 0
    for f, h, missing, key in global_state_uses(P, scope, holders):
        if h in ALLOWED:
            continue
        bad += 1
        # a key made from an address (`x as *const T as usize`, `ptr::addr`, `as_ptr() as usize`) identifies a memory location, not a
        # value: once the object is gone the address is reused, and the entry stored for the old object answers for the new one
        ints = ("usize", "u64", "u32", "isize", "i64", "u128")
        addr = [x for x in f.walk() if (x.get("k") == "Cast" and x.get("t") in ints and str(x["e"].get("t") or "").startswith(("*const", "*mut")))
                or (x.get("k") == "MethodCall" and x.get("method") in ("addr", "expose_addr", "expose_provenance"))]
        if missing:
            R.violated("R17-d", "state:%s" % short(h), "%s stores a value computed from %s in the thread-local/static %s and reuses it for later calls "
                       "(key: %s): output bytes depend on what the process did before, not only on the project" % (f.path, missing, h, key or "none"), loc=f.loc())
        elif addr and key:
            R.violated("R17-d", "state:%s" % short(h), "%s memoises in the thread-local/static %s under a key that contains an address (a pointer cast to an integer): the "
                       "address of a dropped object is reused by a later one, for which the stale entry is then served - the output depends on what the process "
                       "generated before, not only on the project" % (f.path, h), loc=f.loc())
        else:
            R.undecided("R17-d", "state:%s" % short(h), "%s uses global state %s; effect on output not decided" % (f.path, h), loc=f.loc())
    if not bad:
        R.holds("R17-d", "stateless", "%d functions reachable from generate/check/print_js use only the listed environment holders" % len(scope))


def r17pc(P, R):
    """positive controls: the detectors must fire on engine/selfcheck (compiled with the same driver) on every run"""
    from facts import Program
    SC = Program(harness.selfcheck_facts())
    got = {}
    for f, i, n, what in hash_sources(SC):
        v, why, _ = classify(SC, f, i, n)
        if isinstance(v, tuple) and not SC.callers_of(f.path):
            v = "sensitive"  # the control returns the unsorted collection to (absent) callers: the order escapes
        if v != "insensitive" and opaque_function(f):
            v = "insensitive"
        got[f.name] = v
    want = {"hash_order_leaks": "sensitive", "hash_keys_unsorted": "sensitive", "hash_to_set": "insensitive"}
    for k, w in want.items():
        R.check("R17-pc", "control:" + k, got.get(k) == w, "positive control classified %s" % w,
                "self-check: the hash-iteration classifier returns %r for control `%s` (expected %s): the rule cannot be trusted" % (got.get(k), k, w))
    from templates import global_state_holders, global_state_uses
    R.check("R17-pc", "control:untruncated-open", any(f.name == "opens_without_truncate" for f, _ in _untruncated_opens(SC)),
            "untruncated-open control detected", "self-check: the OpenOptions detector misses the control")
    sch = global_state_holders(SC)
    uses = global_state_uses(SC, [f for f in SC.fns.values() if f.name == "memo_once"], sch)
    R.check("R17-pc", "control:memo", any(m == ["seed"] for _, _, m, _ in uses), "unkeyed-memo control detected (depends on `seed`)",
            "self-check: the global-state detector reports %s for the memo control" % [(h, m) for _, h, m, _ in uses])
    hits = SC.ext_callers(lambda p: p.startswith(NONDET))
    R.check("R17-pc", "control:time", any(f.name == "now_secs" for f, c, n in hits), "time API control detected",
            "self-check: the time/RNG detector does not see SystemTime::now in the control crate")


RULES = [("R17-a", r17a), ("R17-b", r17b), ("R17-c", r17c), ("R17-c", r17e), ("R17-c", r17f), ("R17-c", r17g), ("R17-c", r17h), ("R17-d", r17d), ("R17-pc", r17pc)]
EXPLANATION = (
    "Hash-seed independence, for all inputs and all seeds: every expression in the workspace that exposes the iteration order "
    "of a std HashMap/HashSet (iter/keys/values/drain/retain/into_iter, for-loops, Debug formatting; resolved by receiver type, "
    "not by name) is enumerated and its sink classified: collected into an unordered container, consumed by an order-free "
    "aggregate, sorted before any other use, a loop body that only inserts into unordered containers, or enclosed in a function "
    "from which order cannot escape; wrappers that return the iterator (or a collection built from it) are followed to their callers, "
    "locals to their uses. Anything else must be in the allow table with a reason; a listed site is described by what is iterated, the "
    "kind of sink and the ABI entry it serves, not by the function it is written in. R17-b: no call to time, RNG, thread or pointer-formatting APIs anywhere in the workspace. "
    "R17-c (one structural piece of the permutation clause): in the checker no iteration in schema-definition order ends in an "
    "order-dependent consumer (find/position/next/take/fold...). Not decided: the rest of the permutation clause and directory enumeration order.")
ASSUMPTIONS = ["third-party collections are deterministic given insertion order: indexmap, itertools::unique, lru, serde_yaml::Mapping",
               "glob/directory enumeration order is OS-defined, not process-random (outside the claim)",
               "rustc type checker resolves receiver types (facts)"]


def main(tier):
    return harness.run_property("C17", RULES, "other", EXPLANATION, ASSUMPTIONS, tier)
