"""C17 — Generation is deterministic: hash-seed independence (R17-a) and absence of other
process-random inputs (R17-b). The permutation clause is not decided."""
import harness
from facts import norm, call_name, short, subnodes, peel_ty
from templates import enclosing_contexts

HASH = ("std::collections::hash::map::HashMap", "std::collections::hash::set::HashSet", "hashbrown::")
UNORDERED = HASH + ("alloc::collections::btree::map::BTreeMap", "alloc::collections::btree::set::BTreeSet")
ITER_METHODS = {"iter", "iter_mut", "keys", "values", "values_mut", "into_keys", "into_values", "drain",
                "retain", "extract_if", "into_iter", "par_iter"}
ORDER_FREE_CONSUMERS = {"any", "all", "count", "sum", "product", "min", "max", "len", "is_empty", "contains"}
PASS_THROUGH = {"map", "filter", "filter_map", "flat_map", "flatten", "cloned", "copied", "by_ref", "inspect",
                "chain", "into_iter", "iter", "rev", "peekable", "map_while", "take_while", "skip_while", "fuse"}

# sites whose sink the classifier cannot see through; one line of reason each (key = fn path : method)
ALLOW = {
    "graphql_loader::loader::get_required_files:iter_loaded_files":
        "loader ABI `get_required_files`: the host (packages/loader-core) treats the newline-joined list as a set of "
        "files to load; emitted JavaScript does not depend on it. Not a `generate` output.",
}


def is_hash(t):
    return peel_ty(t).startswith(HASH)


def is_unordered(t):
    return peel_ty(t).startswith(UNORDERED)


def hash_sources(P):
    """[(fn, node_index, node, what)] every expression that exposes the iteration order of a hash container"""
    out = []
    wrappers = set()
    for f in P.fns.values():
        if f.derived or "::tests::" in f.path or f.path.endswith("::tests"):
            continue
        for i, (n, _) in enumerate(f.nodes()):
            k = n.get("k")
            if k == "MethodCall" and n["method"] in ITER_METHODS and n.get("recv_ty") and is_hash(n["recv_ty"]):
                out.append((f, i, n, n["method"]))
            elif k == "Call":
                c = call_name(n) or ""
                if c.endswith("IntoIterator::into_iter") and n["args"]:
                    at = n["args"][0].get("ta") or n["args"][0].get("t")
                    if is_hash(at):
                        out.append((f, i, n, "for-loop"))
                elif "fmt::rt::Argument" in c and c.endswith("new_debug") and n["args"]:
                    at = n["args"][0].get("t", "")
                    if "HashMap<" in norm(at) or "HashSet<" in norm(at):
                        out.append((f, i, n, "debug-format"))
    return out


def classify(P, f, i, n, depth=0):
    """-> (verdict, reason); verdict in {"insensitive", "sensitive", "unknown", ("wrapper", fn)}"""
    acc = f.nodes()
    cur_i, cur = i, n
    enumerated = False
    while True:
        pi = acc[cur_i][1]
        if pi < 0:
            break
        p = acc[pi][0]
        pk = p.get("k")
        if pk == "MethodCall" and p.get("recv") is cur:
            m = p["method"]
            if m == "enumerate":
                enumerated = True
                cur_i, cur = pi, p
                continue
            if m in PASS_THROUGH:
                cur_i, cur = pi, p
                continue
            if m in ("collect", "unzip", "partition"):
                t = p.get("t", "")
                if is_unordered(t) and not enumerated:
                    return "insensitive", "collected into %s" % peel_ty(t).split("<")[0]
                return sorted_before_use(P, f, pi, p)
            if m in ORDER_FREE_CONSUMERS and not enumerated:
                return "insensitive", "consumed by order-free `%s`" % m
            if m in ("for_each", "fold", "try_for_each", "find", "find_map", "position", "next", "last", "nth",
                     "reduce", "join", "collect_vec"):
                return "sensitive", "consumed by order-dependent `%s`" % m
            return "unknown", "unrecognised consumer `%s`" % m
        if pk == "MethodCall" and any(a is cur for a in p.get("args", [])):
            m = p["method"]
            if m == "extend" and is_unordered(p.get("recv_ty", "")):
                return "insensitive", "extends a %s" % peel_ty(p["recv_ty"]).split("<")[0]
            if m in ("chain", "zip"):
                cur_i, cur = pi, p
                continue
            return "unknown", "passed to `%s`" % m
        if pk == "Call" and any(a is cur for a in p.get("args", [])):
            c = call_name(p) or ""
            if c.endswith("IntoIterator::into_iter"):
                cur_i, cur = pi, p
                continue
            return "unknown", "passed to `%s`" % short(c)
        if pk == "Match" and p.get("src") == "ForLoopDesugar" and p.get("scrut") is cur:
            return for_body(P, f, pi, p)
        if pk in ("AddrOf", "DropTemps", "Use", "Cast"):
            cur_i, cur = pi, p
            continue
        if pk == "Block" and p.get("tail") is cur:
            # tail of the function body -> the function returns the iterator
            gp = acc[pi][1]
            if gp >= 0 and acc[gp][0] is f.body or p is f.body.get("b"):
                return ("wrapper", f), "returned from %s" % short(f.path)
            cur_i, cur = pi, p
            continue
        if pk == "BlockExpr":
            cur_i, cur = pi, p
            continue
        if pk == "Let":
            return "unknown", "bound to a local"
        break
    return "unknown", "escapes the recognised idioms"


def sorted_before_use(P, f, ci, collect_node):
    """collect into an ordered container is fine iff the binding is sorted before any other use"""
    acc = f.nodes()
    pi = acc[ci][1]
    if pi >= 0 and acc[pi][0].get("k") == "Let" and acc[pi][0]["pat"].get("k") == "Binding":
        let = acc[pi][0]
        lid = let["pat"]["local"]
        # statements of the enclosing block after this let
        bi = acc[pi][1]
        blk = acc[bi][0] if bi >= 0 else None
        if blk and blk.get("k") == "Block":
            stmts = blk["stmts"]
            idx = [j for j, s in enumerate(stmts) if s is let]
            if idx and idx[0] + 1 < len(stmts):
                nxt = stmts[idx[0] + 1]
                uses = [x for x in subnodes(nxt) if x.get("k") == "MethodCall" and x["method"].startswith("sort")
                        and x["recv"].get("k") == "Path" and x["recv"].get("local") == lid]
                if uses:
                    key_total = True
                    return "insensitive", "collected into a Vec that is sorted (`%s`) before any other use" % uses[0]["method"]
    t = peel_ty(collect_node.get("t", ""))
    return "sensitive", "collected into ordered container %s without sorting" % t.split("<")[0]


def for_body(P, f, mi, match_node):
    """a for loop over a hash container is order-insensitive iff its body only inserts into unordered containers"""
    effects = []
    for x in subnodes(match_node):
        if x.get("k") == "MethodCall":
            m = x["method"]
            rt = x.get("recv_ty", "")
            if m in ("insert", "entry", "extend", "remove") and is_unordered(rt):
                effects.append(("unordered-insert", m))
            elif m in ("push", "push_str", "write", "write_str", "write_fmt", "push_back", "extend", "append", "insert"):
                effects.append(("ordered-effect", m + " on " + peel_ty(rt).split("<")[0]))
        elif x.get("k") == "Call":
            c = call_name(x) or ""
            if c.endswith("_print") or c.endswith("_eprint"):
                effects.append(("ordered-effect", "print"))
        elif x.get("k") in ("Ret", "Break") and "desugar" not in (x.get("x") or "") and x.get("e") is not None:
            effects.append(("ordered-effect", "early exit with a value"))
    bad = [e for e in effects if e[0] == "ordered-effect"]
    if not bad and effects:
        return "insensitive", "loop body only inserts into unordered containers (%d inserts)" % len(effects)
    if not effects:
        return "insensitive", "loop body has no order-dependent effect"
    return "sensitive", "loop body has order-dependent effects: %s" % sorted(set(e[1] for e in bad))


def opaque_function(f):
    """order cannot escape the function: it returns an unordered container/aggregate and has no &mut input"""
    ret = f.sig_output or ""
    if not (is_unordered(ret) or ret in ("bool", "usize", "()")):
        return False
    if any(t.startswith("&mut") for t in f.sig_inputs):
        return False
    for x in f.walk():
        if x.get("k") == "Call" and (call_name(x) or "").endswith(("_print", "_eprint")):
            return False
    return ret != "()"


def r17a(P, R):
    sites = hash_sources(P)
    R.count("hash_iteration_sites", len(sites))
    work = list(sites)
    seen_wrappers = set()
    n = 0
    while work:
        f, i, node, what = work.pop(0)
        n += 1
        key = "%s:%s" % (f.path, what)
        verdict, reason = classify(P, f, i, node)
        if isinstance(verdict, tuple):
            w = verdict[1]
            R.holds("R17-a", key, "iteration order is handed to the callers of %s (each caller classified)" % short(w.path), loc=f.loc())
            if w.path not in seen_wrappers:
                seen_wrappers.add(w.path)
                for g in P.fns.values():
                    if g.derived or "::tests" in g.path:
                        continue
                    for j, (c, _) in enumerate(g.nodes()):
                        if c.get("k") in ("MethodCall", "Call") and call_name(c) == w.path:
                            work.append((g, j, c, w.name))
            continue
        if verdict != "insensitive" and opaque_function(f):
            verdict, reason = "insensitive", "%s; but the enclosing function returns `%s` and takes no &mut input, so order cannot escape it" % (reason, (f.sig_output or "").split("<")[0])
        if verdict == "insensitive":
            R.holds("R17-a", key, reason, loc=f.loc())
        elif key in ALLOW:
            R.holds("R17-a", key, "listed: " + ALLOW[key], loc=f.loc())
        else:
            R.violated("R17-a", key, "iteration over a hash container reaches an order-dependent sink (%s): output can differ "
                       "between processes with different hash seeds" % reason, loc=f.loc(), detail={"verdict": verdict})
    R.floor("R17-a", "hash iteration sites", n, 8)


NONDET = ("std::time::", "std::thread::spawn", "std::thread::current", "std::thread::scope", "std::thread::Builder",
          "std::thread::sleep", "std::thread::available_parallelism", "std::thread::Thread::id", "rand::", "getrandom::", "std::process::id", "core::fmt::rt::Argument::new_pointer",
          "std::collections::hash::map::RandomState::", "std::hash::random::", "std::time::SystemTime", "std::time::Instant",
          "std::env::temp_dir", "tempfile::")


def r17b(P, R):
    hits = P.ext_callers(lambda p: p.startswith(NONDET) or "fmt::rt::Argument::new_pointer" in p)
    n = 0
    for f, callee, node in hits:
        if "::tests" in f.path or f.derived:
            continue
        # async-runtime ticket ids / config-file execute are not on the printing path but are listed if they appear
        n += 1
        R.violated("R17-b", "%s:%s" % (f.path, callee), "%s calls `%s` (time, randomness, thread or address dependent)" % (f.path, callee), loc=f.loc())
    R.holds("R17-b", "none", "no call to time/RNG/thread/address-formatting APIs in %d workspace functions" % len(P.fns))
    # positive control: the classifier recognises at least the known HashMap::iter call shape
    R.floor("R17-b", "functions scanned", len(P.fns), 1000)


ORDER_DEP = {"find", "find_map", "position", "rposition", "next", "first", "last", "nth", "take", "skip", "take_while", "skip_while",
             "min_by_key", "max_by_key", "min_by", "max_by", "reduce", "fold", "try_fold", "rev", "zip", "enumerate", "step_by", "nth_back",
             "next_back", "peekable", "scan", "map_while"}


def r17c(P, R):
    """verdict does not depend on the order of schema definitions: in the checker, an iteration in schema-definition order
    (Schema::iter_types / iter_directives and wrappers returning them) never ends in an order-dependent consumer"""
    srcs = {"graphql_type_system::schema::Schema::iter_types", "graphql_type_system::schema::Schema::iter_directives",
            "nitrogql_printer::utils::interface_implementers"}
    n = 0
    for f in P.fns.values():
        if f.derived or "::tests" in f.path:
            continue
        if not (f.crate in ("nitrogql_checker",) or f.path.startswith(("nitrogql_semantics::direct_fields", "nitrogql_semantics::definition_map",
                                                                       "nitrogql_semantics::type_system_utils"))):
            continue
        acc = f.nodes()
        for i, (c, _) in enumerate(acc):
            if c.get("k") not in ("MethodCall", "Call") or call_name(c) not in srcs:
                continue
            n += 1
            cur, ci = c, i
            chain = []
            verdict = "order-free"
            while True:
                pi = acc[ci][1]
                if pi < 0:
                    break
                p = acc[pi][0]
                if p.get("k") == "MethodCall" and p.get("recv") is cur:
                    chain.append(p["method"])
                    if p["method"] in ORDER_DEP:
                        verdict = p["method"]
                        break
                    if p["method"] in ORDER_FREE_CONSUMERS or p["method"] in ("collect", "for_each", "count"):
                        break
                    cur, ci = p, pi
                    continue
                if p.get("k") in ("AddrOf", "DropTemps", "Use"):
                    cur, ci = p, pi
                    continue
                break
            key = "%s:%s" % (short(f.path), "/".join(chain) or "iter")
            R.check("R17-c", key, verdict == "order-free", "schema-order iteration consumed order-free (%s)" % ("/".join(chain) or "loop"),
                    "%s consumes an iteration over the schema's definitions with order-dependent `%s`: permuting type definitions "
                    "(or schema files) can change the check verdict" % (f.path, verdict), loc=f.loc())
    R.floor("R17-c", "schema-order iterations in the checker", n, 1)


def _untruncated_opens(prog):
    """OpenOptions chains that open for writing without `truncate(true)` / `create_new(true)` / `append(true)`"""
    out = []
    for f in prog.fns.values():
        if "::tests" in f.path or f.derived:
            continue
        for c in f.walk():
            if c.get("k") == "MethodCall" and (call_name(c) or "").endswith("OpenOptions::open"):
                names = []
                e = c["recv"]
                while isinstance(e, dict) and e.get("k") in ("MethodCall", "AddrOf", "Call"):
                    if e.get("k") == "MethodCall":
                        names.append(e["method"])
                        e = e["recv"]
                    elif e.get("k") == "AddrOf":
                        e = e["e"]
                    else:
                        break
                if "write" in names and not ({"truncate", "create_new", "append"} & set(names)):
                    out.append((f, names))
    return out


def r17d(P, R):
    """history independence: (1) outputs are written over truncated files; (2) the generating functions keep no state between runs"""
    from templates import global_state_holders, global_state_uses
    opens = _untruncated_opens(P)
    for f, names in opens:
        R.violated("R17-d", "untruncated-write:%s" % short(f.path), "%s opens an output file with OpenOptions(%s) and no truncation: when the new "
                   "content is shorter than what a previous run left at that path the old tail survives, so the bytes depend on the directory's "
                   "history" % (f.path, ", ".join(reversed(names))), loc=f.loc())
    if not opens:
        R.holds("R17-d", "untruncated-write:none", "no OpenOptions write without truncate/create_new/append in the workspace")
    holders = global_state_holders(P)
    R.floor("R17-d", "global state holders found in the workspace (detector control)", len(holders), 6)
    entries = [P.fn("graphql_loader::js_printer::print_js"), P.fn("nitrogql_cli::generate::run_generate"), P.fn("nitrogql_cli::check::run_check")]
    scope = [P.fns[p] for p in P.reachable(entries) if not P.fns[p].derived]
    ALLOWED = {
        "nitrogql_ast::current_file::CURRENT_FILE_OF_POS": "set by the caller immediately before each parse (R08-c file-index-source); a pure input of the parse",
        "nitrogql_config_file::node::NODE_COMMAND_SERVER": "handle of the node helper process (environment, outside the claim)",
        "nitrogql_async_runtime::RUNTIME": "executor of the node helper calls (environment)",
        "nitrogql_async_runtime::ticket::TICKETS": "executor bookkeeping (environment)",
    }
    bad = 0
    for f, h, missing, key in global_state_uses(P, scope, holders):
        if h in ALLOWED:
            continue
        bad += 1
        if missing:
            R.violated("R17-d", "state:%s" % short(h), "%s stores a value computed from %s in the thread-local/static %s and reuses it for later calls "
                       "(key: %s): output bytes depend on what the process did before, not only on the project" % (f.path, missing, h, key or "none"), loc=f.loc())
        else:
            R.undecided("R17-d", "state:%s" % short(h), "%s uses global state %s; effect on output not decided" % (f.path, h), loc=f.loc())
    if not bad:
        R.holds("R17-d", "stateless", "%d functions reachable from generate/check/print_js use only the listed environment holders" % len(scope))


def r17pc(P, R):
    """positive controls: the detectors must fire on engine/selfcheck (compiled with the same driver) on every run"""
    from facts import Program
    SC = Program(harness.selfcheck_facts())
    got = {}
    for f, i, n, what in hash_sources(SC):
        v, why = classify(SC, f, i, n)
        if v != "insensitive" and opaque_function(f):
            v = "insensitive"
        got[f.name] = v
    want = {"hash_order_leaks": "sensitive", "hash_keys_unsorted": "sensitive", "hash_to_set": "insensitive"}
    for k, w in want.items():
        R.check("R17-pc", "control:" + k, got.get(k) == w, "positive control classified %s" % w,
                "self-check: the hash-iteration classifier returns %r for control `%s` (expected %s): the rule cannot be trusted" % (got.get(k), k, w))
    from templates import global_state_holders, global_state_uses
    R.check("R17-pc", "control:untruncated-open", any(f.name == "opens_without_truncate" for f, _ in _untruncated_opens(SC)),
            "untruncated-open control detected", "self-check: the OpenOptions detector misses the control")
    sch = global_state_holders(SC)
    uses = global_state_uses(SC, [f for f in SC.fns.values() if f.name == "memo_once"], sch)
    R.check("R17-pc", "control:memo", any(m == ["seed"] for _, _, m, _ in uses), "unkeyed-memo control detected (depends on `seed`)",
            "self-check: the global-state detector reports %s for the memo control" % [(h, m) for _, h, m, _ in uses])
    hits = SC.ext_callers(lambda p: p.startswith(NONDET))
    R.check("R17-pc", "control:time", any(f.name == "now_secs" for f, c, n in hits), "time API control detected",
            "self-check: the time/RNG detector does not see SystemTime::now in the control crate")


RULES = [("R17-a", r17a), ("R17-b", r17b), ("R17-c", r17c), ("R17-d", r17d), ("R17-pc", r17pc)]
EXPLANATION = (
    "Hash-seed independence, for all inputs and all seeds: every expression in the workspace that exposes the iteration order "
    "of a std HashMap/HashSet (iter/keys/values/drain/retain/into_iter, for-loops, Debug formatting; resolved by receiver type, "
    "not by name) is enumerated and its sink classified: collected into an unordered container, consumed by an order-free "
    "aggregate, sorted before any other use, a loop body that only inserts into unordered containers, or enclosed in a function "
    "from which order cannot escape; wrappers that return the iterator are followed to their callers. Anything else must be in "
    "the allow table with a reason. R17-b: no call to time, RNG, thread or pointer-formatting APIs anywhere in the workspace. "
    "R17-c (one structural piece of the permutation clause): in the checker no iteration in schema-definition order ends in an "
    "order-dependent consumer (find/position/next/take/fold...). Not decided: the rest of the permutation clause and directory enumeration order.")
ASSUMPTIONS = ["third-party collections are deterministic given insertion order: indexmap, itertools::unique, lru, serde_yaml::Mapping",
               "glob/directory enumeration order is OS-defined, not process-random (outside the claim)",
               "rustc type checker resolves receiver types (facts)"]


def main(tier):
    return harness.run_property("C17", RULES, "other", EXPLANATION, ASSUMPTIONS, tier)
