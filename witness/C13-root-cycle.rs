// C13 / R13-d witness (fixed in /repo d8e62be). Appended to
// crates/semantics/src/operation_import_resolver/tests/mod.rs (uses its TestOperationResolver, where
// /path/to/rec/frag1.graphql imports Frag2 from frag2.graphql and frag2.graphql imports Frag1 back).
// Before the fix: names == ["Frag1", "Frag1", "Frag2"]; after: ["Frag1", "Frag2"].
#[test]
fn witness_root_cycle() {
    let src = r#"
        #import Frag2 from "./frag2.graphql"
        fragment Frag1 on Foo { ...Frag2 }
        "#;
    let doc = parse_operation_document(src).unwrap();
    let (doc, extensions) = resolve_operation_extensions(doc).unwrap();
    let doc = (Path::new("/path/to/rec/frag1.graphql"), &doc, &extensions);
    let resolved = resolve_operation_imports(doc, &TestOperationResolver).unwrap();
    let names: Vec<_> = resolved.definitions.iter().filter_map(|d| nitrogql_ast::base::HasPos::name(d).map(|s| s.to_owned())).collect();
    assert_eq!(names.iter().filter(|n| n.as_str() == "Frag1").count(), 1, "{names:?}");
}
