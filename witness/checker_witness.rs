//! Witness inputs for the checker findings (C03/C04/C05). Each test asserts the behaviour the property requires.
//! Drop into crates/checker/tests/ and run `cargo test -p nitrogql-checker --offline --test checker_witness`.
//! On the pinned tree (before the fix: commits) the tests named in known-findings.txt fail.
use graphql_builtins::generate_builtins;
use nitrogql_checker::{OperationCheckContext, check_operation_document, check_type_system_document};
use nitrogql_parser::{parse_operation_document, parse_type_system_document};
use nitrogql_semantics::{ast_to_type_system, resolve_operation_extensions, resolve_schema_extensions};

const SCHEMA: &str = "
    directive @d on FIELD
    type Query {
        f(obj: In, list: [Int], fl: Float, id: ID, i: Int!, nn: [Int!]!): Int
        me: User
    }
    type User { id: ID! name: String }
    input In { a: Int, b: Int }
";

fn check_schema(schema: &str) -> Vec<String> {
    let mut doc = parse_type_system_document(schema).unwrap();
    doc.extend(generate_builtins());
    let doc = resolve_schema_extensions(doc).unwrap();
    check_type_system_document(&doc).into_iter().map(|e| e.message.to_string()).collect()
}

fn check(op: &str) -> Vec<String> {
    let mut doc = parse_type_system_document(SCHEMA).unwrap();
    doc.extend(generate_builtins());
    let doc = resolve_schema_extensions(doc).unwrap();
    assert!(check_type_system_document(&doc).is_empty(), "schema must be valid");
    let schema = ast_to_type_system(&doc);
    let op = parse_operation_document(op).unwrap();
    let (op, _) = resolve_operation_extensions(op).unwrap();
    let context = OperationCheckContext::new(&schema);
    check_operation_document(&op, &context).into_iter().map(|e| e.message.to_string()).collect()
}

// ---- C03: must be rejected
#[test]
fn c03_unknown_input_field_is_rejected() {
    assert!(!check("query { f(i: 1, nn: [1], obj: {c: 1}) }").is_empty(), "unknown input field `c` accepted");
}
#[test]
fn c03_unknown_directive_on_fragment_spread_is_rejected() {
    assert!(!check("query { me { ...F @nope } } fragment F on User { id }").is_empty());
}
#[test]
fn c03_misplaced_directive_on_inline_fragment_is_rejected() {
    assert!(!check("query { me { ... on User @deprecated { id } } }").is_empty());
}
#[test]
fn c03_unknown_directive_on_variable_definition_is_rejected() {
    assert!(!check("query($a: Int @nope) { f(i: 1, nn: [1], list: [$a]) }").is_empty());
}
#[test]
fn c03_unknown_directive_on_fragment_definition_is_rejected() {
    assert!(!check("query { me { ...F } } fragment F on User @nope { id }").is_empty());
}
#[test]
fn c03_ill_typed_variable_default_is_rejected() {
    assert!(!check("query($a: Int = \"x\") { f(i: 1, nn: [1], list: [$a]) }").is_empty());
}
#[test]
fn c03_unused_fragment_body_is_checked() {
    assert!(!check("query { me { id } } fragment G on Query { nope }").is_empty());
}

// ---- C04: must be accepted
#[test]
fn c04_int_literal_for_float_is_accepted() {
    assert_eq!(check("query { f(i: 1, nn: [1], fl: 1) }"), Vec::<String>::new());
}
#[test]
fn c04_int_literal_for_id_is_accepted() {
    assert_eq!(check("query { f(i: 1, nn: [1], id: 1) }"), Vec::<String>::new());
}
#[test]
fn c04_null_for_nullable_list_is_accepted() {
    assert_eq!(check("query { f(i: 1, nn: [1], list: null) }"), Vec::<String>::new());
}
#[test]
fn c04_single_value_coerces_to_list() {
    assert_eq!(check("query { f(i: 1, nn: [1], list: 1) }"), Vec::<String>::new());
    assert_eq!(check("query { f(i: 1, nn: 1) }"), Vec::<String>::new());
}
#[test]
fn c04_nullable_variable_with_default_in_non_null_position() {
    assert_eq!(check("query($a: Int = 1) { f(i: $a, nn: [1]) }"), Vec::<String>::new());
}

// ---- C05
#[test]
fn c05_deprecated_on_interface_field_is_accepted() {
    assert_eq!(check_schema("type Query { a: Int } interface I { a: Int @deprecated }"), Vec::<String>::new());
}
#[test]
fn c05_unknown_type_of_interface_field_is_rejected() {
    assert!(!check_schema("type Query { a: Int } interface I { a: Nope }").is_empty());
}

// ---- C03: interface fast path (fixed): a fragment on the *same* interface as its parent must still have its body checked
const IFACE_SCHEMA: &str = "
    type Query { node: Node }
    interface Node { id: ID! }
    type User implements Node { id: ID! name: String }
";
fn check_with(schema: &str, op: &str) -> Vec<String> {
    let mut doc = parse_type_system_document(schema).unwrap();
    doc.extend(generate_builtins());
    let doc = resolve_schema_extensions(doc).unwrap();
    assert!(check_type_system_document(&doc).is_empty(), "schema must be valid");
    let schema = ast_to_type_system(&doc);
    let op = parse_operation_document(op).unwrap();
    let (op, _) = resolve_operation_extensions(op).unwrap();
    let context = OperationCheckContext::new(&schema);
    check_operation_document(&op, &context).into_iter().map(|e| e.message.to_string()).collect()
}
#[test]
fn c03_same_interface_inline_fragment_body_is_checked() {
    assert!(!check_with(IFACE_SCHEMA, "query { node { ... on Node { nope } } }").is_empty(), "unknown field inside `... on Node` under a Node-typed field accepted");
}
#[test]
fn c03_same_interface_fragment_spread_body_is_checked() {
    assert!(!check_with(IFACE_SCHEMA, "query { node { ...F } } fragment F on Node { nope }").is_empty());
}
#[test]
fn c04_same_interface_fragment_valid_body_is_accepted() {
    assert!(check_with(IFACE_SCHEMA, "query { node { ... on Node { id } ...F } } fragment F on Node { id }").is_empty());
}
