// C02 / R02-b witness (fixed in /repo by "fix: type an aliased __typename as the object-name literal").
// Appended to crates/printer/src/operation_type_printer/tests/mod.rs. Before the fix the emitted type was
//   t: Schema.__OperationOutput.String | null;   __typename: "User";
#[test]
fn witness_aliased_typename() {
    let doc = parse_operation_document("query { me { t: __typename __typename: name } }").unwrap();
    let printed = print_document_default(&doc);
    assert!(printed.contains("t: \"User\""), "aliased __typename is not the object-name literal");
    assert!(!printed.contains("__typename: \"User\""), "`__typename: name` is typed as the object-name literal");
}
