// C01 / R01-b witness (open finding R01-b:merge-branch-key-drops-variables).
// Append to crates/printer/src/operation_type_printer/tests/mod.rs and run
//   cargo test -p nitrogql-printer --offline witness_c01
// The same field is selected twice; each occurrence branches on its own Boolean variable. merge_selection_trees pairs the
// branches of the two occurrences by `type_name` only and takes the *first* right-hand branch, so the ($g = true) branches are lost:
// the Result type requires `name` although a conforming server omits it when $g is true.
#[test]
fn witness_c01_merge_keeps_all_variable_branches() {
    let doc = parse_operation_document(
        "query($f: Boolean!, $g: Boolean!) { me { id @skip(if: $f) } me { name @skip(if: $g) } }",
    )
    .unwrap();
    let printed = print_document_default(&doc);
    println!("{printed}");
    // a response for ($f = false, $g = true) is { me: { id } } : some branch must make `name` absent/optional
    assert!(
        printed.contains("name?: never"),
        "no branch admits a response without `name` (the $g = true case)"
    );
}
