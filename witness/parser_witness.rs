use nitrogql_parser::parse_operation_document;
use nitrogql_ast::operation_ext::ExecutableDefinitionExt;
#[test]
fn shorthand_query() {
    let doc = parse_operation_document("{ a }").unwrap();
    assert_eq!(doc.definitions.len(), 1);
    match &doc.definitions[0] {
        ExecutableDefinitionExt::OperationDefinition(op) => {
            assert_eq!(op.operation_type.as_str(), "query");
            assert!(op.name.is_none());
            assert_eq!(op.selection_set.selections.len(), 1);
        }
        _ => panic!("not an operation"),
    }
}
#[test]
fn trailing_comment_without_newline() {
    assert!(parse_operation_document("query { a } # trailing").is_ok());
    assert!(parse_operation_document("# only a comment before\nquery { a }\n# c").is_ok());
}
