use nitrogql_parser::parse_operation_document;
fn panics(src: &'static str) -> bool { std::panic::catch_unwind(|| { let _ = parse_operation_document(src); }).is_err() }
#[test] fn unicode_surrogate() { assert!(!panics("query { f(a: \"\\uD800\") }")); }
#[test] fn unicode_brace_out_of_range() { assert!(!panics("query { f(a: \"\\u{110000}\") }")); }
#[test] fn unicode_brace_overflow() { assert!(!panics("query { f(a: \"\\u{FFFFFFFFF}\") }")); }
